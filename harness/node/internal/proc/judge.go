package proc

import (
	"bytes"
	"fmt"
	"strings"

	"verif/harness/node/internal/vlib"
)

// Finding is one oracle failure attributed to a property.
type Finding struct {
	Prop    string
	Class   string
	Witness map[string]interface{}
}

func errClass(err error) string {
	s := err.Error()
	switch {
	case strings.Contains(s, "not ascending"):
		return "signatures-not-ascending"
	case strings.Contains(s, "outside set"):
		return "guardian-index-outside-set"
	case strings.Contains(s, "recovers to"):
		return "signature-not-by-guardian-at-index"
	case strings.Contains(s, "quorum"):
		return "below-quorum"
	case strings.Contains(s, "repeated"):
		return "signer-repeated"
	case strings.Contains(s, "empty set"):
		return "empty-guardian-set"
	}
	return "signature-unrecoverable"
}

func msgByID(sc *Scenario, id string) *Msg {
	for _, m := range sc.Msgs {
		if m.ID == id {
			return m
		}
	}
	return nil
}

func wireID(w *vlib.WireVAA) string {
	return fmt.Sprintf("%d/%x/%d/%d", w.EChain, w.Emitter, w.TChain, w.Sequence)
}

// Judge applies the C01 and C02 oracles to one executed step.
func Judge(sc *Scenario, md *Model, rec *StepRecord) []Finding {
	var out []Finding
	add := func(prop, class string, extra map[string]interface{}) {
		w := map[string]interface{}{"step": rec.Index, "event": rec.Event.Short(), "scenario": sc.Describe()}
		for k, v := range extra {
			w[k] = v
		}
		out = append(out, Finding{prop, class, w})
	}
	if rec.Panic != "" {
		add("C13", "panic:"+panicSite(rec.Panic), map[string]interface{}{"panic": rec.Panic})
		return out
	}
	if rec.LoopbackLost {
		// gossip does not echo a node's own messages back to it: the loop-back is the only way the node's own signature is
		// ever counted, so without it the message can never be published by this node with its own signature in it
		add("C02", "own-signature-never-offered-to-the-aggregation", map[string]interface{}{"note": rec.Event.Note})
	}
	agg := rec.Event.Kind == "obs" || rec.Event.Kind == "loopback"
	var gotObs, gotVAA []Out
	for _, o := range rec.Out {
		switch o.Kind {
		case "obs":
			gotObs = append(gotObs, o)
		case "vaa":
			gotVAA = append(gotVAA, o)
		default:
			add("C02", "unexpected-gossip-envelope", map[string]interface{}{"raw": vlib.Hex(o.Raw)})
		}
	}
	// ---------------- C01: everything broadcast as complete / stored must verify
	validate := func(b []byte, where string) {
		w, err := vlib.ParseWire(b)
		if err != nil || w.Version != 1 {
			add("C01", where+":undecodable", map[string]interface{}{"vaa": vlib.Hex(b)})
			return
		}
		switch {
		case agg:
			m := msgByID(sc, wireID(w))
			if m == nil {
				add("C01", where+":aggregated-VAA-for-unknown-message", map[string]interface{}{"vaa": vlib.Hex(b)})
				return
			}
			snap := md.SnapOf(m)
			if snap == nil {
				add("C01", where+":aggregated-VAA-for-message-never-observed", map[string]interface{}{"vaa": vlib.Hex(b)})
				return
			}
			if w.SetIndex != snap.Index {
				add("C01", where+":names-set-other-than-observation-time-set", map[string]interface{}{"named": w.SetIndex, "observation_set": snap.String()})
			}
			if err := w.CheckQuorumSigned(snap.Keys()); err != nil {
				add("C01", where+":aggregated:"+errClass(err), map[string]interface{}{"err": err.Error(), "set": snap.String(), "indices": w.SigIdx})
			}
			if !bytes.Equal(w.Body, m.Body) {
				add("C02", "published-body-differs-from-own-observation", map[string]interface{}{"vaa": vlib.Hex(b)})
			}
		case rec.Event.Kind == "inbound":
			if md.Cur == nil {
				add("C01", where+":inbound-stored-before-any-guardian-set", nil)
				return
			}
			if err := w.CheckQuorumSigned(md.Cur.Keys()); err != nil {
				add("C01", where+":inbound:"+errClass(err), map[string]interface{}{"err": err.Error(), "set": md.Cur.String(), "indices": w.SigIdx, "variant": rec.Event.Variant})
			}
		default:
			add("C01", where+":in-step-that-must-not-publish", nil)
		}
	}
	for _, o := range gotVAA {
		if !agg {
			add("C01", "quorum-VAA-broadcast-outside-aggregation", map[string]interface{}{"vaa": vlib.Hex(o.VAA)})
		}
		validate(o.VAA, "broadcast")
	}
	for id, after := range rec.StoreAfter {
		before, had := rec.StoreBefore[id]
		if had && bytes.Equal(before, after) {
			continue
		}
		if had && rec.Event.Kind == "inbound" {
			add("C01", "stored-VAA-replaced-by-peer-copy", map[string]interface{}{"id": id, "variant": rec.Event.Variant})
		}
		validate(after, "stored")
	}
	for id := range rec.StoreBefore {
		if _, ok := rec.StoreAfter[id]; !ok {
			add("C01", "stored-VAA-disappeared", map[string]interface{}{"id": id})
		}
	}
	// ---------------- C02: outputs equal the reference model's
	ex := rec.Expect
	if rec.Event.Kind == "msg" && sc.Msgs[rec.Event.Msg].Gov && (len(rec.Out) > 0 || rec.QuorumEvents > 0) {
		add("C02", "governance-emitter-observation-signed", nil)
	}
	switch {
	case len(gotObs) < len(ex.Obs):
		add("C02", "own-observation-not-broadcast", nil)
	case len(gotObs) > len(ex.Obs):
		add("C02", "unexpected-own-observation:"+rec.Event.Kind, nil)
	default:
		for i := range ex.Obs {
			g, w := gotObs[i].Obs, ex.Obs[i]
			switch {
			case !bytes.Equal(g.Hash, w.Hash):
				add("C02", "own-observation-digest-differs", map[string]interface{}{"got": vlib.Hex(g.Hash), "want": vlib.Hex(w.Hash)})
			case !bytes.Equal(g.Addr, w.Addr) || !bytes.Equal(g.Signature, w.Signature):
				if a, err := vlib.Recover(g.Hash, g.Signature); err != nil || a != md.Node {
					add("C02", "own-observation-not-signed-by-node-key", nil)
				}
			case g.MessageId != w.MessageId || !bytes.Equal(g.TxHash, w.TxHash):
				add("C02", "own-observation-id-or-txhash-differs", map[string]interface{}{"got": g.MessageId, "want": w.MessageId})
			}
		}
	}
	switch {
	case len(gotVAA) < len(ex.VAAs):
		add("C02", "publication-missing-at-quorum", map[string]interface{}{"expected": vlib.Hex(ex.VAAs[0])})
	case len(gotVAA) > len(ex.VAAs):
		why := "below-quorum-or-not-observed"
		if w, err := vlib.ParseWire(gotVAA[0].VAA); err == nil {
			if m := msgByID(sc, wireID(w)); m != nil && md.Published(m) {
				why = "already-published"
			} else if m != nil && md.SnapOf(m) == nil {
				why = "message-never-observed"
			}
		}
		add("C02", "publication-unexpected:"+why, map[string]interface{}{"vaa": vlib.Hex(gotVAA[0].VAA)})
	default:
		for i := range ex.VAAs {
			if !bytes.Equal(gotVAA[i].VAA, ex.VAAs[i]) {
				add("C02", "published-bytes-differ-from-model", map[string]interface{}{"got": vlib.Hex(gotVAA[i].VAA), "want": vlib.Hex(ex.VAAs[i])})
			}
		}
	}
	if agg {
		for id, want := range ex.StoreSet {
			if got, ok := rec.StoreAfter[id]; !ok {
				add("C02", "publication-not-stored", map[string]interface{}{"id": id})
			} else if !bytes.Equal(got, want) {
				add("C02", "stored-bytes-differ-from-published", map[string]interface{}{"id": id})
			}
		}
		if rec.QuorumEvents != len(ex.VAAs) {
			add("C02", "quorum-reporter-events!=publications", map[string]interface{}{"events": rec.QuorumEvents, "publications": len(ex.VAAs)})
		}
	}
	return out
}

// panicSite reduces a panic value to a stable class.
func panicSite(p string) string {
	p = strings.ReplaceAll(p, "\n", " ")
	switch {
	case strings.Contains(p, "failed to unmarshal VAA from db"):
		return "handleMessage:stored-VAA-undecodable"
	case strings.Contains(p, "nil pointer"):
		return "nil-dereference"
	case strings.Contains(p, "invalid sig len"):
		return "handleObservation:invalid-sig-len"
	case strings.Contains(p, "index out of range"):
		return "index-out-of-range"
	case strings.Contains(p, "StoreSignedVAA called for unsigned VAA"):
		return "store-unsigned-VAA"
	}
	if len(p) > 60 {
		p = p[:60]
	}
	return p
}
