package proc

import (
	"bytes"
	"fmt"
	"time"

	gossipv1 "github.com/alephium/wormhole-fork/node/pkg/proto/gossip/v1"
	"github.com/alephium/wormhole-fork/node/pkg/vaa"
	"verif/harness/node/internal/vlib"
)

// send delivers v on an unbuffered input channel of the real Run loop under a watchdog.
func sendWD[T any](ch chan T, v T, what string) error {
	select {
	case ch <- v:
		return nil
	case <-time.After(30 * time.Second):
		return fmt.Errorf("processor did not take %s within 30s", what)
	}
}

// Barrier returns once every event sent before it has been fully handled: the Run loop is
// single-threaded, so completing one more (inert) send proves the previous handler returned.
// The inert event is an observation whose signature cannot be recovered.
func (r *Rig) Barrier() error {
	for i := 0; i < 2; i++ {
		if err := sendWD(r.ObsvC, &gossipv1.SignedObservation{}, "barrier"); err != nil {
			return err
		}
	}
	return nil
}

// RunLoop feeds the scenario to the real Processor.Run (rig built with Run: true), one event at
// a time, each followed by a barrier. "loopback" events are skipped: the node's own loop-back
// goroutine races with the harness' sends for real. The model only tracks sets and local
// observations (what the loose oracle needs).
func RunLoop(rig *Rig, sc *Scenario, md *Model, cb func(*StepRecord)) error {
	var extra []vaa.VAAID
	for _, e := range sc.Events {
		if e.Kind == "inbound" {
			if w, err := vlib.ParseWire(e.VAA); err == nil {
				extra = append(extra, vaa.VAAID{EmitterChain: vaa.ChainID(w.EChain), EmitterAddress: vaa.Address(w.Emitter), TargetChain: vaa.ChainID(w.TChain), Sequence: w.Sequence})
			}
		}
	}
	before := ReadStore(rig.DB, sc.Msgs, extra)
	for i, e := range sc.Events {
		if e.Kind == "loopback" {
			continue
		}
		rec := &StepRecord{Index: i, Event: e, StoreBefore: before}
		var err error
		switch e.Kind {
		case "set":
			md.OnSet(sc.Sets[e.Set])
			err = sendWD(rig.SetC, sc.Sets[e.Set].Common(), "set")
		case "msg":
			md.OnMsg(sc.Msgs[e.Msg])
			err = sendWD(rig.LockC, sc.Msgs[e.Msg].Pub, "message")
		case "obs":
			err = sendWD(rig.ObsvC, e.Obs, "observation")
		case "inbound":
			err = sendWD(rig.SignedInC, &gossipv1.SignedVAAWithQuorum{Vaa: e.VAA}, "inbound VAA")
		}
		if err == nil {
			err = rig.Barrier()
		}
		if err != nil {
			return err
		}
		rec.Out = rig.DrainSend()
		rec.StoreAfter = ReadStore(rig.DB, sc.Msgs, extra)
		rec.QuorumEvents = len(rig.DrainQuorumEvents())
		rig.DrainMsgPubEvents()
		rec.CurSet = md.Cur
		cb(rec)
		before = rec.StoreAfter
	}
	return nil
}

// Quiesce re-delivers the node's own observations (idempotent duplicates of whatever the
// loop-back goroutines deliver) so that the final state no longer depends on their timing.
func (r *Rig) Quiesce(own []*gossipv1.SignedObservation) ([]Out, error) {
	for _, o := range own {
		if err := sendWD(r.ObsvC, o, "own observation"); err != nil {
			return nil, err
		}
	}
	if err := r.Barrier(); err != nil {
		return nil, err
	}
	return r.DrainSend(), nil
}

// JudgeLoose is the C01 oracle for run mode, where the step in which the own signature lands
// is not known: a broadcast VAA must verify as an aggregated VAA; a new store entry must verify
// as aggregated or as inbound-acceptable under the current set; a replaced entry must verify as
// aggregated.
func JudgeLoose(sc *Scenario, md *Model, rec *StepRecord) []Finding {
	var out []Finding
	add := func(class string, extra map[string]interface{}) {
		w := map[string]interface{}{"mode": "run", "step": rec.Index, "event": rec.Event.Short(), "scenario": sc.Describe()}
		for k, v := range extra {
			w[k] = v
		}
		out = append(out, Finding{"C01", class, w})
	}
	asAggregated := func(b []byte) error {
		w, err := vlib.ParseWire(b)
		if err != nil || w.Version != 1 {
			return fmt.Errorf("undecodable")
		}
		m := msgByID(sc, wireID(w))
		if m == nil || md.SnapOf(m) == nil {
			return fmt.Errorf("message never observed")
		}
		snap := md.SnapOf(m)
		if w.SetIndex != snap.Index {
			// In run mode the node's own loop-back travels on its own goroutine: the signature of an EARLIER observation may
			// complete that observation's VAA after the message has been observed again under a newer set (the harness cannot
			// know in which step it lands). Such a VAA rightly names the earlier observation's set: accept any set the message
			// was observed under, and verify against that one.
			var earlier *GSet
			for _, g := range md.SnapsOf(m) {
				if g != nil && g.Index == w.SetIndex {
					earlier = g
				}
			}
			if earlier == nil {
				return fmt.Errorf("names set %d, observed under %s", w.SetIndex, snap)
			}
			snap = earlier
		}
		if !bytes.Equal(w.Body, m.Body) {
			return fmt.Errorf("body differs")
		}
		return w.CheckQuorumSigned(snap.Keys())
	}
	asInbound := func(b []byte) error {
		w, err := vlib.ParseWire(b)
		if err != nil || w.Version != 1 {
			return fmt.Errorf("undecodable")
		}
		if md.Cur == nil {
			return fmt.Errorf("no set")
		}
		return w.CheckQuorumSigned(md.Cur.Keys())
	}
	for _, o := range rec.Out {
		if o.Kind == "vaa" {
			if err := asAggregated(o.VAA); err != nil {
				add("broadcast:aggregated:"+errClassLoose(err), map[string]interface{}{"err": err.Error(), "vaa": vlib.Hex(o.VAA)})
			}
		}
	}
	for id, after := range rec.StoreAfter {
		before, had := rec.StoreBefore[id]
		if had && bytes.Equal(before, after) {
			continue
		}
		ea := asAggregated(after)
		if ea == nil {
			continue
		}
		if had {
			add("stored-VAA-replaced-by-peer-copy", map[string]interface{}{"id": id, "err": ea.Error()})
			continue
		}
		if rec.Event.Kind != "inbound" {
			add("stored:aggregated:"+errClassLoose(ea), map[string]interface{}{"id": id, "err": ea.Error()})
			continue
		}
		if ei := asInbound(after); ei != nil {
			add("stored:inbound:"+errClassLoose(ei), map[string]interface{}{"id": id, "err": ei.Error(), "variant": rec.Event.Variant})
		}
	}
	return out
}

func errClassLoose(err error) string {
	s := err.Error()
	switch s {
	case "undecodable", "message never observed", "body differs", "no set":
		return s
	}
	if len(s) > 9 && s[:9] == "names set" {
		return "names-set-other-than-observation-time-set"
	}
	return errClass(err)
}
