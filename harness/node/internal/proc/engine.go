package proc

// Scenario engine for the processor monitors (C01, C02, C03-observations, C13): generates
// event sequences, delivers them to the real handlers (direct mode, via the verif hooks) or to
// the real Run loop (run mode), and compares every step with a small reference model.

import (
	"bytes"
	"encoding/hex"
	"fmt"
	"math/rand"
	"sort"
	"time"

	"github.com/alephium/wormhole-fork/node/pkg/common"
	"github.com/alephium/wormhole-fork/node/pkg/db"
	gossipv1 "github.com/alephium/wormhole-fork/node/pkg/proto/gossip/v1"
	"github.com/alephium/wormhole-fork/node/pkg/vaa"
	ethcommon "github.com/ethereum/go-ethereum/common"
	"verif/harness/node/internal/vlib"
)

const NodeKey = 0 // pool index of the node's own guardian key

type GSet struct {
	Index uint32
	Pool  []int // key-pool indices in guardian order
}

func (g *GSet) Keys() []ethcommon.Address {
	out := make([]ethcommon.Address, len(g.Pool))
	for i, k := range g.Pool {
		out[i] = vlib.Addr(vlib.Key(k))
	}
	return out
}
func (g *GSet) Common() *common.GuardianSet {
	return &common.GuardianSet{Keys: g.Keys(), Index: g.Index}
}
func (g *GSet) Pos(pool int) int {
	for i, k := range g.Pool {
		if k == pool {
			return i
		}
	}
	return -1
}
func (g *GSet) String() string { return fmt.Sprintf("set#%d%v", g.Index, g.Pool) }

type Msg struct {
	Pub    *common.MessagePublication
	Body   []byte
	Digest []byte
	ID     string
	VID    vaa.VAAID
	Gov    bool
}

func NewMsg(mp *common.MessagePublication) *Msg {
	m := &Msg{Pub: mp}
	m.Body = vlib.BuildBody(uint32(mp.Timestamp.Unix()), mp.Nonce, uint16(mp.EmitterChain), uint16(mp.TargetChain), [32]byte(mp.EmitterAddress), mp.Sequence, mp.ConsistencyLevel, mp.Payload)
	m.Digest = vlib.Digest(m.Body)
	m.VID = vaa.VAAID{EmitterChain: mp.EmitterChain, EmitterAddress: mp.EmitterAddress, TargetChain: mp.TargetChain, Sequence: mp.Sequence}
	m.ID = m.VID.ToString()
	m.Gov = mp.EmitterChain == GovChain && mp.EmitterAddress == GovEmitter
	return m
}

type Event struct {
	Kind    string // set | msg | loopback | obs | inbound
	Set     int    // set: index into Scenario.Sets
	Msg     int    // msg/loopback/obs/inbound: message index (-1: foreign digest)
	Variant string
	Signer  int // obs: key-pool index
	Obs     *gossipv1.SignedObservation
	VAA     []byte
	Note    string
}

func (e Event) Short() string {
	switch e.Kind {
	case "set":
		return fmt.Sprintf("set(%d)", e.Set)
	case "msg":
		return fmt.Sprintf("msg(%d)", e.Msg)
	case "loopback":
		return fmt.Sprintf("loopback(%d)", e.Msg)
	case "obs":
		return fmt.Sprintf("obs(m%d,k%d,%s)", e.Msg, e.Signer, e.Variant)
	case "inbound":
		return fmt.Sprintf("inbound(m%d,%s)", e.Msg, e.Variant)
	case "restart":
		return "restart"
	}
	return e.Kind
}

type Scenario struct {
	Sets   []*GSet
	Msgs   []*Msg
	Events []Event
	Desc   string
}

func (s *Scenario) Describe() map[string]interface{} {
	var ev []string
	for _, e := range s.Events {
		ev = append(ev, e.Short())
	}
	var sets []string
	for _, g := range s.Sets {
		sets = append(sets, g.String())
	}
	var msgs []string
	for _, m := range s.Msgs {
		msgs = append(msgs, fmt.Sprintf("%s payload=%dB digest=%x", m.ID, len(m.Pub.Payload), m.Digest[:6]))
	}
	return map[string]interface{}{"desc": s.Desc, "sets": sets, "msgs": msgs, "events": ev}
}

// ---------------------------------------------------------------- event builders

func MkObs(m *Msg, digest []byte, signer int, variant string, rng *rand.Rand, otherAddr ethcommon.Address) *gossipv1.SignedObservation {
	k := vlib.Key(signer)
	o := &gossipv1.SignedObservation{Addr: vlib.Addr(k).Bytes(), Hash: append([]byte{}, digest...), Signature: vlib.Sign(k, digest), TxHash: []byte{1, 2, 3}}
	if m != nil {
		o.MessageId = m.ID
		o.TxHash = m.Pub.TxHash.Bytes()
	}
	switch variant {
	case "valid", "nonmember", "other-set-member", "other-digest":
	case "forged":
		o.Signature = make([]byte, 65)
		rng.Read(o.Signature)
		o.Signature[64] = byte(rng.Intn(2))
	case "sig-bitflip":
		o.Signature[rng.Intn(64)] ^= 1 << uint(rng.Intn(8))
	case "wrong-addr":
		o.Addr = otherAddr.Bytes()
	case "recid+27": // the Ethereum-style recovery id 27/28 instead of 0/1: not a signature this code base produces or accepts
		o.Signature[64] += 27
	case "sig64":
		o.Signature = o.Signature[:64]
	case "sig66":
		o.Signature = append(o.Signature, 0)
	case "sig-empty":
		o.Signature = nil
	case "hash-short":
		o.Hash = o.Hash[:31]
	case "hash-long":
		o.Hash = append(o.Hash, 0)
	case "hash-nil":
		o.Hash = nil
	case "addr-nil":
		o.Addr = nil
	case "addr-long": // BytesToAddress keeps the last 20 bytes
		o.Addr = append([]byte{0xde, 0xad}, o.Addr...)
	}
	return o
}

// MkVAA builds wire bytes for message body signed by the given guardian positions of set g.
func MkVAA(body []byte, namedIndex uint32, g *GSet, positions []int, outsiderAt int) []byte {
	d := vlib.Digest(body)
	var idx []uint8
	var sigs [][]byte
	for i, p := range positions {
		idx = append(idx, uint8(p))
		key := vlib.Key(g.Pool[p%len(g.Pool)])
		if i == outsiderAt {
			key = vlib.Key(299)
		}
		sigs = append(sigs, vlib.Sign(key, d))
	}
	return vlib.BuildWire(1, namedIndex, idx, sigs, body)
}

// ---------------------------------------------------------------- reference model

type mEnt struct {
	observed  bool
	snap      *GSet
	sigs      map[ethcommon.Address][]byte
	published bool
	msg       *Msg
	snaps     []*GSet // every set the message was observed under so far (re-observations after a set change add one)
}

type Model struct {
	Cur    *GSet
	ent    map[string]*mEnt
	Stored map[string][]byte // message id -> bytes
	Node   ethcommon.Address
}

func NewModel() *Model {
	return &Model{ent: map[string]*mEnt{}, Stored: map[string][]byte{}, Node: vlib.Addr(vlib.Key(NodeKey))}
}

// Expect is what the model predicts a step emits.
type Expect struct {
	Obs       []*gossipv1.SignedObservation // exact own observations
	VAAs      [][]byte                      // exact quorum VAAs broadcast
	StoreSet  map[string][]byte             // ids whose stored bytes must become exactly this
	Accepted  bool                          // obs: passed authentication; inbound: passed all checks
	InboundOK bool
}

func has(keys []ethcommon.Address, a ethcommon.Address) bool {
	for _, k := range keys {
		if k == a {
			return true
		}
	}
	return false
}

func (md *Model) OnSet(g *GSet) { md.Cur = g }

// OnRestart: the process restarts. Memory is lost (entries, guardian set); the store stays.
func (md *Model) OnRestart() {
	md.ent = map[string]*mEnt{}
	md.Cur = nil
}

func (md *Model) OnMsg(m *Msg) Expect {
	var ex Expect
	if md.Cur == nil || m.Gov {
		return ex
	}
	h := hex.EncodeToString(m.Digest)
	e := md.ent[h]
	if e == nil {
		e = &mEnt{sigs: map[ethcommon.Address][]byte{}}
		md.ent[h] = e
	}
	e.observed, e.snap, e.msg = true, md.Cur, m
	e.snaps = append(e.snaps, md.Cur)
	k := vlib.Key(NodeKey)
	ex.Obs = []*gossipv1.SignedObservation{{Addr: vlib.Addr(k).Bytes(), Hash: m.Digest, Signature: vlib.Sign(k, m.Digest), TxHash: m.Pub.TxHash.Bytes(), MessageId: m.ID}}
	return ex
}

// ObsAcceptable is the independent authentication predicate of C03 for observations.
func (md *Model) ObsAcceptable(o *gossipv1.SignedObservation) (ethcommon.Address, bool) {
	a, err := vlib.Recover(o.Hash, o.Signature)
	if err != nil {
		return a, false
	}
	if a != ethcommon.BytesToAddress(o.Addr) {
		return a, false
	}
	gs := md.Cur
	if e := md.ent[hex.EncodeToString(o.Hash)]; e != nil && e.snap != nil {
		gs = e.snap
	}
	if gs == nil || !has(gs.Keys(), a) {
		return a, false
	}
	return a, true
}

func (md *Model) OnObs(o *gossipv1.SignedObservation) Expect {
	var ex Expect
	a, ok := md.ObsAcceptable(o)
	if !ok {
		return ex
	}
	ex.Accepted = true
	h := hex.EncodeToString(o.Hash)
	e := md.ent[h]
	if e == nil {
		e = &mEnt{sigs: map[ethcommon.Address][]byte{}}
		md.ent[h] = e
	}
	e.sigs[a] = o.Signature
	if e.observed && !e.published {
		keys := e.snap.Keys()
		var idx []uint8
		var sigs [][]byte
		for i, k := range keys {
			if s, ok := e.sigs[k]; ok {
				idx = append(idx, uint8(i))
				sigs = append(sigs, s)
			}
		}
		if len(idx) >= vlib.Quorum(len(keys)) {
			e.published = true
			w := vlib.BuildWire(1, e.snap.Index, idx, sigs, e.msg.Body)
			ex.VAAs = [][]byte{w}
			ex.StoreSet = map[string][]byte{e.msg.ID: w}
			md.Stored[e.msg.ID] = w
		}
	}
	return ex
}

// InboundValid is the independent predicate: would a correct node be allowed to store b now?
func (md *Model) InboundValid(b []byte) (*vlib.WireVAA, error) {
	w, err := vlib.ParseWire(b)
	if err != nil {
		return nil, err
	}
	if w.Version != 1 || len(w.Payload) == 0 {
		return nil, fmt.Errorf("undecodable")
	}
	if md.Cur == nil {
		return nil, fmt.Errorf("no guardian set")
	}
	if err := w.CheckQuorumSigned(md.Cur.Keys()); err != nil {
		return nil, err
	}
	return w, nil
}

func (md *Model) OnInbound(b []byte) Expect {
	var ex Expect
	w, err := md.InboundValid(b)
	if err != nil {
		return ex
	}
	ex.InboundOK = true
	id := fmt.Sprintf("%d/%s/%d/%d", w.EChain, hex.EncodeToString(w.Emitter[:]), w.TChain, w.Sequence)
	if _, ok := md.Stored[id]; !ok {
		md.Stored[id] = b
		ex.StoreSet = map[string][]byte{id: b}
	}
	return ex
}

func (md *Model) Published(m *Msg) bool {
	e := md.ent[hex.EncodeToString(m.Digest)]
	return e != nil && e.published
}

// SnapsOf returns every guardian set the node has observed m under so far, oldest first.
func (md *Model) SnapsOf(m *Msg) []*GSet {
	if e := md.ent[hex.EncodeToString(m.Digest)]; e != nil {
		return e.snaps
	}
	return nil
}

func (md *Model) SnapOf(m *Msg) *GSet {
	if e := md.ent[hex.EncodeToString(m.Digest)]; e != nil {
		return e.snap
	}
	return nil
}

// ---------------------------------------------------------------- step record

type StepRecord struct {
	Index        int
	Event        Event
	Expect       Expect
	Out          []Out
	StoreBefore  map[string][]byte
	StoreAfter   map[string][]byte
	Panic        string
	CurSet       *GSet // model's current set after the step
	QuorumEvents int
	LoopbackLost bool // the node broadcast its own observation but never offered it to its own observation queue
}

func ReadStore(d *db.Database, msgs []*Msg, extra []vaa.VAAID) map[string][]byte {
	out := map[string][]byte{}
	for _, m := range msgs {
		if b, err := d.GetSignedVAABytes(m.VID); err == nil {
			out[m.ID] = b
		}
	}
	for _, v := range extra {
		if b, err := d.GetSignedVAABytes(v); err == nil {
			out[v.ToString()] = b
		}
	}
	return out
}

// RunDirect executes a scenario against the real handlers through the verif hooks. The
// callback sees every step with the model's expectation. Loop-back observations produced by
// the node are captured and only delivered by explicit "loopback" events (or at the end when
// flush is set).
func RunDirect(rig *Rig, sc *Scenario, md *Model, cb func(*StepRecord)) {
	RunDirect2(rig, sc, md, nil, cb)
}

// RunDirect2 is RunDirect with a hook called right before each event is delivered.
func RunDirect2(rig *Rig, sc *Scenario, md *Model, pre func(int, Event), cb func(*StepRecord)) {
	pending := map[int][]*gossipv1.SignedObservation{}
	var extra []vaa.VAAID
	for _, e := range sc.Events {
		if e.Kind == "inbound" {
			if w, err := vlib.ParseWire(e.VAA); err == nil {
				extra = append(extra, vaa.VAAID{EmitterChain: vaa.ChainID(w.EChain), EmitterAddress: vaa.Address(w.Emitter), TargetChain: vaa.ChainID(w.TChain), Sequence: w.Sequence})
			}
		}
	}
	before := ReadStore(rig.DB, sc.Msgs, extra)
	for i, e := range sc.Events {
		rec := &StepRecord{Index: i, Event: e, StoreBefore: before}
		if pre != nil {
			pre(i, e)
		}
		func() {
			defer func() {
				if p := recover(); p != nil {
					rec.Panic = fmt.Sprint(p)
				}
			}()
			switch e.Kind {
			case "restart":
				md.OnRestart()
				pending = map[int][]*gossipv1.SignedObservation{}
				if err := rig.Restart(); err != nil {
					rec.Event.Note = "restart failed: " + err.Error()
				}
			case "set":
				md.OnSet(sc.Sets[e.Set])
				rig.P.VerifSetGuardianSet(sc.Sets[e.Set].Common())
			case "msg":
				rec.Expect = md.OnMsg(sc.Msgs[e.Msg])
				if e.Variant == "burst" { // the observation queue is full of gossip at this moment
					rig.FillObsvQueue()
				}
				rig.P.VerifHandleMessage(rig.Ctx, sc.Msgs[e.Msg].Pub)
			case "loopback":
				q := pending[e.Msg]
				if len(q) == 0 {
					rec.Event.Note = "no pending loopback"
					return
				}
				pending[e.Msg] = q[1:]
				rec.Event.Obs = q[0]
				rec.Expect = md.OnObs(q[0])
				rig.P.VerifHandleObservation(rig.Ctx, q[0])
			case "obs":
				rec.Expect = md.OnObs(e.Obs)
				rig.P.VerifHandleObservation(rig.Ctx, e.Obs)
			case "inbound":
				rec.Expect = md.OnInbound(e.VAA)
				rig.P.VerifHandleInbound(rig.Ctx, &gossipv1.SignedVAAWithQuorum{Vaa: e.VAA})
			}
		}()
		rec.Out = rig.DrainSend()
		if e.Kind == "msg" && e.Variant == "burst" {
			// the burst is worked off; the node's own signature must come through once there is room
			got := rig.DrainObsvQueue(20 * time.Millisecond)
			own := 0
			for _, o := range rec.Out {
				if o.Kind == "obs" {
					own++
				}
			}
			if own > 0 && len(got) == 0 {
				if lb := rig.TakeLoopback(5 * time.Second); lb != nil {
					got = append(got, lb)
				}
			}
			pending[e.Msg] = append(pending[e.Msg], got...)
			if own > len(got) {
				rec.Event.Note = "own observation broadcast during a gossip burst but its loop-back never reached the observation queue"
				rec.LoopbackLost = true
			}
		} else if e.Kind == "msg" {
			for _, o := range rec.Out {
				if o.Kind == "obs" {
					if lb := rig.TakeLoopback(5 * time.Second); lb != nil {
						pending[e.Msg] = append(pending[e.Msg], lb)
					} else {
						rec.Event.Note = "own observation broadcast but no loop-back offered within 5s"
						rec.LoopbackLost = true
					}
				}
			}
		}
		rec.StoreAfter = ReadStore(rig.DB, sc.Msgs, extra)
		rec.QuorumEvents = len(rig.DrainQuorumEvents())
		rig.DrainMsgPubEvents()
		rec.CurSet = md.Cur
		cb(rec)
		before = rec.StoreAfter
	}
}

// ---------------------------------------------------------------- generator

type GenOpts struct {
	N        int // guardian-set size
	NodePos  int // position of the node's key in the first set (-1: not a member)
	NSets    int
	NMsgs    int
	Serial   uint64 // makes message ids unique across scenarios sharing a store
	Hostile  bool   // include invalid traffic and inbound VAAs
	SetMoves bool   // allow set updates after the first event
	Restarts bool   // a process restart (store kept, memory lost) somewhere in a quarter of the scenarios (direct mode only)
}

func mkSet(rng *rand.Rand, index uint32, n, nodePos int, avoid map[int]bool, reuse []int) *GSet {
	g := &GSet{Index: index}
	used := map[int]bool{NodeKey: true}
	pick := func() int {
		for {
			k := 1 + rng.Intn(60)
			if !used[k] && !avoid[k] {
				used[k] = true
				return k
			}
		}
	}
	for i := 0; i < n; i++ {
		switch {
		case i == nodePos:
			g.Pool = append(g.Pool, NodeKey)
		case i < len(reuse) && reuse[i] != NodeKey && !used[reuse[i]]:
			used[reuse[i]] = true
			g.Pool = append(g.Pool, reuse[i])
		default:
			g.Pool = append(g.Pool, pick())
		}
	}
	return g
}

func GenMsg(rng *rand.Rand, serial uint64, j int) *Msg {
	mp := &common.MessagePublication{Timestamp: time.Unix(int64(1600000000+rng.Intn(100000000)), int64(rng.Intn(2))*int64(rng.Intn(1000000000))),
		Nonce: rng.Uint32(), Sequence: serial*64 + uint64(j), ConsistencyLevel: uint8(rng.Intn(256)), EmitterChain: vaa.ChainID(2 + rng.Intn(20)), TargetChain: vaa.ChainID(rng.Intn(30)),
		Payload: make([]byte, 1+rng.Intn(200))}
	if rng.Intn(8) == 0 {
		mp.Payload = make([]byte, 1001+rng.Intn(3000))
	}
	rng.Read(mp.Payload)
	rng.Read(mp.EmitterAddress[:])
	rng.Read(mp.TxHash[:])
	return NewMsg(mp)
}

// Gen builds one scenario.
func Gen(rng *rand.Rand, o GenOpts) *Scenario {
	sc := &Scenario{}
	first := mkSet(rng, uint32(rng.Intn(5)), o.N, o.NodePos, nil, nil)
	sc.Sets = append(sc.Sets, first)
	for s := 1; s < o.NSets; s++ {
		prev := sc.Sets[s-1]
		var g *GSet
		n2 := o.N
		if rng.Intn(3) == 0 {
			n2 = 1 + rng.Intn(19)
		}
		pos := o.NodePos
		if pos >= n2 || rng.Intn(4) == 0 {
			pos = rng.Intn(n2+1) - 1
		}
		switch rng.Intn(3) {
		case 0: // disjoint
			av := map[int]bool{}
			for _, k := range prev.Pool {
				av[k] = true
			}
			g = mkSet(rng, prev.Index+1, n2, pos, av, nil)
		case 1: // overlapping, same order where reused
			g = mkSet(rng, prev.Index+1, n2, pos, nil, prev.Pool)
		default: // same keys, reordered
			g = &GSet{Index: prev.Index + 1, Pool: append([]int{}, prev.Pool...)}
			rng.Shuffle(len(g.Pool), func(i, j int) { g.Pool[i], g.Pool[j] = g.Pool[j], g.Pool[i] })
		}
		sc.Sets = append(sc.Sets, g)
	}
	for j := 0; j < o.NMsgs; j++ {
		sc.Msgs = append(sc.Msgs, GenMsg(rng, o.Serial, j))
	}
	// planned set timeline: set 0 first (almost always), later sets at random points
	type slot struct{ ev Event }
	var evs []Event
	cur := 0
	evs = append(evs, Event{Kind: "set", Set: 0})
	if o.Hostile && rng.Intn(10) == 0 {
		// traffic before any set is known
		m := rng.Intn(len(sc.Msgs))
		pre := []Event{{Kind: "msg", Msg: m}, {Kind: "obs", Msg: m, Signer: first.Pool[0], Variant: "valid", Obs: MkObs(sc.Msgs[m], sc.Msgs[m].Digest, first.Pool[0], "valid", rng, ethcommon.Address{})}}
		evs = append(pre, evs...)
	}
	for mi, m := range sc.Msgs {
		var mev []Event
		set := sc.Sets[cur]
		n := len(set.Pool)
		q := vlib.Quorum(n)
		target := []int{q - 1, q, q, q + 1, n}[rng.Intn(5)]
		if target > n {
			target = n
		}
		if target < 0 {
			target = 0
		}
		perm := rng.Perm(n)
		signers := perm[:target]
		for _, p := range signers {
			k := set.Pool[p]
			if k == NodeKey {
				continue // the node's own signature only ever arrives through the loop-back
			}
			mev = append(mev, Event{Kind: "obs", Msg: mi, Signer: k, Variant: "valid", Obs: MkObs(m, m.Digest, k, "valid", rng, ethcommon.Address{})})
			if rng.Intn(6) == 0 {
				mev = append(mev, mev[len(mev)-1]) // duplicate
			}
		}
		if o.Hostile {
			nh := rng.Intn(6)
			for h := 0; h < nh; h++ {
				variant := []string{"forged", "sig-bitflip", "wrong-addr", "nonmember", "other-set-member", "other-digest", "sig64", "sig66", "hash-short", "addr-long", "recid+27"}[rng.Intn(11)]
				k := set.Pool[rng.Intn(n)]
				d := m.Digest
				var other ethcommon.Address
				switch variant {
				case "nonmember":
					k = 100 + rng.Intn(50)
				case "other-set-member":
					os := sc.Sets[rng.Intn(len(sc.Sets))]
					k = os.Pool[rng.Intn(len(os.Pool))]
				case "other-digest":
					d = vlib.Digest(append(append([]byte{}, m.Body...), 0x99))
				case "wrong-addr":
					other = vlib.Addr(vlib.Key(set.Pool[rng.Intn(n)]))
				}
				if k == NodeKey && variant != "other-digest" {
					continue
				}
				mev = append(mev, Event{Kind: "obs", Msg: mi, Signer: k, Variant: variant, Obs: MkObs(m, d, k, variant, rng, other)})
			}
		}
		rng.Shuffle(len(mev), func(i, j int) { mev[i], mev[j] = mev[j], mev[i] })
		// local observation somewhere, loop-back somewhere after it (or never)
		at := rng.Intn(len(mev) + 1)
		mev = append(mev[:at], append([]Event{{Kind: "msg", Msg: mi}}, mev[at:]...)...)
		if rng.Intn(8) != 0 {
			lb := at + 1 + rng.Intn(len(mev)-at)
			mev = append(mev[:lb], append([]Event{{Kind: "loopback", Msg: mi}}, mev[lb:]...)...)
		}
		if rng.Intn(5) == 0 { // re-observation of the same message
			at2 := at + 1 + rng.Intn(len(mev)-at)
			mev = append(mev[:at2], append([]Event{{Kind: "msg", Msg: mi}}, mev[at2:]...)...)
			if rng.Intn(2) == 0 {
				mev = append(mev, Event{Kind: "loopback", Msg: mi})
			}
		}
		if o.Hostile {
			ni := rng.Intn(4)
			for h := 0; h < ni; h++ {
				variant := []string{"valid-current", "valid-current", "valid-prev", "quorum-1", "unordered", "repeated-index", "bad-sig", "other-subset", "wrong-index-name", "other-set"}[rng.Intn(10)]
				g := set
				named := set.Index
				switch variant {
				case "valid-prev":
					if cur > 0 {
						g = sc.Sets[cur-1]
						named = g.Index
					}
				case "other-set":
					g = sc.Sets[rng.Intn(len(sc.Sets))]
					named = set.Index
				case "wrong-index-name":
					named = set.Index + 7
				}
				gq := vlib.Quorum(len(g.Pool))
				cnt := gq + rng.Intn(len(g.Pool)-gq+1)
				pos := rng.Perm(len(g.Pool))[:cnt]
				sort.Ints(pos)
				outsider := -1
				switch variant {
				case "quorum-1":
					pos = pos[:gq-1]
				case "unordered":
					if len(pos) >= 2 {
						a, b := rng.Intn(len(pos)), rng.Intn(len(pos))
						pos[a], pos[b] = pos[b], pos[a]
					}
				case "repeated-index":
					pos = pos[:gq]
					if len(pos) >= 2 {
						pos[len(pos)-1] = pos[len(pos)-2]
					}
				case "bad-sig":
					outsider = rng.Intn(len(pos))
				}
				body := m.Body
				if rng.Intn(4) == 0 { // a message the node never observes itself
					fm := GenMsg(rng, o.Serial, 32+mi*4+h)
					body = fm.Body
				}
				ev := Event{Kind: "inbound", Msg: mi, Variant: variant, VAA: MkVAA(body, named, g, pos, outsider)}
				at := rng.Intn(len(mev) + 1)
				mev = append(mev[:at], append([]Event{ev}, mev[at:]...)...)
			}
		}
		// set update in the middle of this message's traffic
		if o.SetMoves && cur+1 < len(sc.Sets) && rng.Intn(2) == 0 {
			cur++
			at := rng.Intn(len(mev) + 1)
			mev = append(mev[:at], append([]Event{{Kind: "set", Set: cur}}, mev[at:]...)...)
			// some members of the new set also sign
			ns := sc.Sets[cur]
			for _, p := range rng.Perm(len(ns.Pool)) {
				k := ns.Pool[p]
				if k == NodeKey || rng.Intn(3) == 0 {
					continue
				}
				ev := Event{Kind: "obs", Msg: mi, Signer: k, Variant: "valid", Obs: MkObs(m, m.Digest, k, "valid", rng, ethcommon.Address{})}
				a := at + 1 + rng.Intn(len(mev)-at)
				mev = append(mev[:a], append([]Event{ev}, mev[a:]...)...)
			}
			if rng.Intn(2) == 0 {
				mev = append(mev, Event{Kind: "msg", Msg: mi}, Event{Kind: "loopback", Msg: mi})
			}
		}
		evs = append(evs, mev...)
	}
	// interleave the per-message blocks a little: random adjacent swaps across message boundaries
	if len(sc.Msgs) > 1 {
		for k := 0; k < len(evs); k++ {
			i := 1 + rng.Intn(len(evs)-1)
			j := 1 + rng.Intn(len(evs)-1)
			if evs[i].Kind == "set" || evs[j].Kind == "set" || evs[i].Msg == evs[j].Msg {
				continue
			}
			// keep loopback after its msg: only swap obs/inbound events
			if (evs[i].Kind == "obs" || evs[i].Kind == "inbound") && (evs[j].Kind == "obs" || evs[j].Kind == "inbound") {
				evs[i], evs[j] = evs[j], evs[i]
			}
		}
	}
	for i := range evs {
		if evs[i].Kind == "msg" && rng.Intn(6) == 0 {
			evs[i].Variant = "burst"
		}
	}
	restartNote := ""
	if o.Restarts && rng.Intn(4) == 0 && len(evs) > 3 {
		// the guardian process restarts somewhere: what was stored stays stored, every pending aggregation is forgotten, and the
		// guardian set arrives anew from the chain. Afterwards one message is observed (again) and signed by everybody.
		at := 2 + rng.Intn(len(evs)-2)
		curSet := 0
		for _, e := range evs[:at] {
			if e.Kind == "set" {
				curSet = e.Set
			}
		}
		ins := []Event{{Kind: "restart"}, {Kind: "set", Set: curSet}}
		mi := rng.Intn(len(sc.Msgs))
		tail := []Event{{Kind: "msg", Msg: mi}, {Kind: "loopback", Msg: mi}}
		lastSet := curSet
		for _, e := range evs[at:] {
			if e.Kind == "set" {
				lastSet = e.Set
			}
		}
		for _, k := range sc.Sets[lastSet].Pool {
			if k != NodeKey {
				tail = append(tail, Event{Kind: "obs", Msg: mi, Signer: k, Variant: "valid", Obs: MkObs(sc.Msgs[mi], sc.Msgs[mi].Digest, k, "valid", rng, ethcommon.Address{})})
			}
		}
		evs = append(evs[:at], append(ins, evs[at:]...)...)
		evs = append(evs, tail...)
		restartNote = " restart"
	}
	sc.Events = evs
	sc.Desc = fmt.Sprintf("n=%d nodePos=%d sets=%d msgs=%d hostile=%v%s", o.N, o.NodePos, o.NSets, o.NMsgs, o.Hostile, restartNote)
	return sc
}

// OrderHash identifies the delivery order of a scenario.
func (s *Scenario) OrderHash() string {
	var b bytes.Buffer
	for _, e := range s.Events {
		b.WriteString(e.Short())
		b.WriteByte(';')
	}
	return b.String()
}
