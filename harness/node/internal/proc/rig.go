// Package proc wires a real processor.Processor to channels the harness owns.
package proc

import (
	"context"
	"crypto/ecdsa"
	"os"
	"sync/atomic"
	"time"

	"github.com/alephium/wormhole-fork/node/pkg/common"
	"github.com/alephium/wormhole-fork/node/pkg/db"
	"github.com/alephium/wormhole-fork/node/pkg/ecdsasigner"
	"github.com/alephium/wormhole-fork/node/pkg/processor"
	gossipv1 "github.com/alephium/wormhole-fork/node/pkg/proto/gossip/v1"
	"github.com/alephium/wormhole-fork/node/pkg/reporter"
	"github.com/alephium/wormhole-fork/node/pkg/supervisor"
	"github.com/alephium/wormhole-fork/node/pkg/vaa"
	"go.uber.org/zap"
	"google.golang.org/protobuf/proto"
)

// GovChain / GovEmitter are the governance emitter configured in every rig.
const GovChain = vaa.ChainID(1)

var GovEmitter = vaa.Address{0, 0, 0, 0, 0, 0, 0, 0, 0, 0, 0, 0, 0, 0, 0, 0, 0, 0, 0, 0, 0, 0, 0, 0, 0, 0, 0, 0, 0, 0, 0, 4}

type Rig struct {
	P         *processor.Processor
	Ctx       context.Context // supervised context (what the handlers expect)
	DB        *db.Database
	Dir       string
	LockC     chan *common.MessagePublication
	SetC      chan *common.GuardianSet
	SendC     chan []byte
	ObsvC     chan *gossipv1.SignedObservation
	ObsvReqC  chan *gossipv1.ObservationRequest
	InjectC   chan *vaa.VAA
	SignedInC chan *gossipv1.SignedVAAWithQuorum
	Gst       *common.GuardianSetState
	Events    *reporter.AttestationEventReporter
	QuorumC   chan *vaa.VAA
	MsgPubC   chan *reporter.MessagePublication
	cancel    context.CancelFunc
	opts      Options
	RunErr    chan error
}

type Options struct {
	Key        *ecdsa.PrivateKey
	Run        bool // start the real Processor.Run loop
	SendCap    int
	ObsvReqCap int
	DB         *db.Database // share an already open store (the rig then does not close it)
	ObsvCap    int          // capacity of the observation queue (0: see obsvCapFor)
}

// New builds a processor over a fresh badger store in a scratch directory.
func New(o Options) (*Rig, error) {
	d, dir := o.DB, ""
	if d == nil {
		var err error
		dir, err = os.MkdirTemp("", "verif-proc-")
		if err != nil {
			return nil, err
		}
		d, err = db.Open(dir)
		if err != nil {
			return nil, err
		}
	}
	if o.SendCap == 0 {
		o.SendCap = 1 << 16
	}
	if o.ObsvReqCap == 0 {
		o.ObsvReqCap = common.ObsvReqChannelSize
	}
	r := &Rig{DB: d, Dir: dir,
		LockC:     make(chan *common.MessagePublication),
		SetC:      make(chan *common.GuardianSet),
		SendC:     make(chan []byte, o.SendCap),
		ObsvC:     make(chan *gossipv1.SignedObservation, obsvCapFor(o)),
		ObsvReqC:  make(chan *gossipv1.ObservationRequest, o.ObsvReqCap),
		InjectC:   make(chan *vaa.VAA),
		SignedInC: make(chan *gossipv1.SignedVAAWithQuorum),
		Gst:       common.NewGuardianSetState(nil),
		Events:    reporter.EventListener(zap.NewNop()),
		RunErr:    make(chan error, 1),
	}
	sub := r.Events.Subscribe()
	r.QuorumC = sub.Channels.VAAQuorumC
	r.MsgPubC = sub.Channels.MessagePublicationC
	r.opts = o
	if err := r.start(); err != nil {
		return nil, err
	}
	return r, nil
}

// start creates the processor (a fresh one: empty aggregation state, no guardian set) over the rig's store and channels.
func (r *Rig) start() error {
	o, d := r.opts, r.DB
	ctx, cancel := context.WithCancel(context.Background())
	r.cancel = cancel
	ready := make(chan struct{})
	supervisor.New(ctx, zap.NewNop(), func(sctx context.Context) error {
		r.Ctx = sctx
		r.P = processor.NewProcessor(sctx, d, r.LockC, r.SetC, r.SendC, r.ObsvC, r.ObsvReqC, r.InjectC, r.SignedInC,
			&ecdsasigner.ECDSAPrivateKey{Value: o.Key}, r.Gst, r.Events, nil, GovChain, GovEmitter)
		close(ready)
		if o.Run {
			err := r.P.Run(sctx)
			r.RunErr <- err
			return err
		}
		supervisor.Signal(sctx, supervisor.SignalHealthy)
		<-sctx.Done()
		return sctx.Err()
	}, supervisor.WithPropagatePanic)
	select {
	case <-ready:
	case <-time.After(20 * time.Second):
		return context.DeadlineExceeded
	}
	return nil
}

// Restart models a guardian process restart in direct mode: the store survives, everything the processor kept in
// memory (aggregation state, the guardian set it had learnt) is gone, loop-back observations in flight are lost.
func (r *Rig) Restart() error {
	r.cancel()
	for { // loop-back goroutines of the old processor still parked on ObsvC
		select {
		case <-r.ObsvC:
			continue
		case <-time.After(3 * time.Millisecond):
		}
		break
	}
	r.DrainSend()
	r.DrainReq()
	r.Gst = common.NewGuardianSetState(nil)
	return r.start()
}

func (r *Rig) Close() {
	r.cancel()
	// unblock loop-back goroutines still parked on ObsvC
	go func() {
		for {
			select {
			case <-r.ObsvC:
			case <-time.After(50 * time.Millisecond):
				return
			}
		}
	}()
	time.Sleep(2 * time.Millisecond)
	if r.Dir != "" {
		_ = r.DB.Close()
		_ = os.RemoveAll(r.Dir)
	}
}

// OpenScratchDB opens a badger store in a fresh scratch directory; the returned func removes it.
func OpenScratchDB() (*db.Database, func(), error) {
	dir, err := os.MkdirTemp("", "verif-db-")
	if err != nil {
		return nil, nil, err
	}
	d, err := db.Open(dir)
	if err != nil {
		return nil, nil, err
	}
	return d, func() { _ = d.Close(); _ = os.RemoveAll(dir) }, nil
}

// Out is one decoded message from sendC.
type Out struct {
	Raw  []byte
	Obs  *gossipv1.SignedObservation
	VAA  []byte // SignedVAAWithQuorum bytes
	Kind string
}

// DrainSend empties sendC and decodes every envelope.
func (r *Rig) DrainSend() []Out {
	var out []Out
	for {
		select {
		case b := <-r.SendC:
			var m gossipv1.GossipMessage
			o := Out{Raw: b, Kind: "undecodable"}
			if err := proto.Unmarshal(b, &m); err == nil {
				switch x := m.Message.(type) {
				case *gossipv1.GossipMessage_SignedObservation:
					o.Kind, o.Obs = "obs", x.SignedObservation
				case *gossipv1.GossipMessage_SignedVaaWithQuorum:
					o.Kind, o.VAA = "vaa", x.SignedVaaWithQuorum.Vaa
				default:
					o.Kind = "other"
				}
			}
			out = append(out, o)
		default:
			return out
		}
	}
}

func (r *Rig) DrainReq() []*gossipv1.ObservationRequest {
	var out []*gossipv1.ObservationRequest
	for {
		select {
		case q := <-r.ObsvReqC:
			out = append(out, q)
		default:
			return out
		}
	}
}

func (r *Rig) DrainQuorumEvents() []*vaa.VAA {
	var out []*vaa.VAA
	for {
		select {
		case v := <-r.QuorumC:
			out = append(out, v)
		default:
			return out
		}
	}
}

func (r *Rig) DrainMsgPubEvents() int {
	n := 0
	for {
		select {
		case <-r.MsgPubC:
			n++
		default:
			return n
		}
	}
}

// ObsvCap is the capacity of the observation queue in guardiand (node.go).
const ObsvCap = 50

// obsvCapFor: direct mode gives the queue its production capacity (the harness reads it itself). In run mode the queue
// is unbuffered so that every send is a rendezvous with the Run loop: events sent on different channels are then
// processed in the order the harness sent them, which the step-by-step comparison relies on.
func obsvCapFor(o Options) int {
	if o.ObsvCap > 0 {
		return o.ObsvCap
	}
	if o.Run {
		return 0
	}
	return ObsvCap
}

var loopbackMisses int32

// TakeLoopback waits briefly for the own-signature loop-back goroutine to offer its observation. After three misses
// in one process the wait is cut to 150 ms: a tree on which the loop-back never comes must not cost 5 s per message.
func (r *Rig) TakeLoopback(wait time.Duration) *gossipv1.SignedObservation {
	if atomic.LoadInt32(&loopbackMisses) >= 3 && wait > 150*time.Millisecond {
		wait = 150 * time.Millisecond
	}
	select {
	case o := <-r.ObsvC:
		return o
	case <-time.After(wait):
		if wait > 0 {
			atomic.AddInt32(&loopbackMisses, 1)
		}
		return nil
	}
}

// FillObsvQueue fills the observation queue to its capacity with junk (a gossip burst the processor has not got round
// to yet); DrainObsvQueue empties it again and returns whatever is not junk - own loop-back observations that were
// waiting for room.
func (r *Rig) FillObsvQueue() int {
	n := 0
	for {
		select {
		case r.ObsvC <- &gossipv1.SignedObservation{MessageId: "junk"}:
			n++
		default:
			return n
		}
	}
}

func (r *Rig) DrainObsvQueue(settle time.Duration) []*gossipv1.SignedObservation {
	var out []*gossipv1.SignedObservation
	for {
		select {
		case o := <-r.ObsvC:
			if o.MessageId != "junk" {
				out = append(out, o)
			}
		case <-time.After(settle):
			return out
		}
	}
}
