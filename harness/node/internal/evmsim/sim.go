// Package evmsim is a fake EVM JSON-RPC node (go-ethereum's own rpc.Server over a loop-back
// WebSocket) over a ground-truth chain model, for driving the real ethereum.Watcher.
package evmsim

import (
	"context"
	"encoding/json"
	"errors"
	"fmt"
	"math/big"
	"net/http/httptest"
	"strings"
	"sync"
	"time"

	ethAbi "github.com/alephium/wormhole-fork/node/pkg/ethereum/abi"
	"github.com/ethereum/go-ethereum/accounts/abi"
	"github.com/ethereum/go-ethereum/common"
	"github.com/ethereum/go-ethereum/common/hexutil"
	"github.com/ethereum/go-ethereum/core/types"
	"github.com/ethereum/go-ethereum/rpc"
)

var Topic = common.HexToHash("0xcd7b525350dfac7e06deb9b3a8f19ceb75cf6cd2914cd0b2d7bf9d9a3d9babff")

type LogSpec struct {
	Address common.Address
	Topic0  common.Hash
	Sender  common.Address
	Target  uint16
	Seq     uint64
	Nonce   uint32
	Payload []byte
	CL      uint8
	Note    string
}

type Block struct {
	Number  uint64
	Hash    common.Hash
	Time    uint64
	Variant int
}

type Tx struct {
	Hash   common.Hash
	Logs   []*LogSpec
	Status uint64
	Block  *Block // canonical inclusion (nil: not in the canonical chain)
	Note   string
}

type LogEntry struct {
	N       int
	Version int
	Method  string
	Detail  string
	Err     string
}

type ReceiptAnswer struct {
	LogN      int
	Found     bool
	BlockHash common.Hash
	Status    uint64
}

type Sim struct {
	mu       sync.Mutex
	Contract common.Address
	Version  int
	Head     uint64
	canon    map[uint64]*Block
	byHash   map[common.Hash]*Block
	variants map[uint64]int
	Txs      map[common.Hash]*Tx
	Log      []LogEntry
	// what was actually served
	HeadServed []struct {
		LogN int
		Head uint64
	}
	ReceiptServed map[common.Hash][]ReceiptAnswer
	counts        map[string]int
	Faults        map[string]map[int]string // method -> ordinal -> "error" (JSON-RPC error)
	subs          []*logSub
	abi           abi.ABI
	srv           *httptest.Server
	rpcSrv        *rpc.Server
	GuardianKeys  []common.Address
	FinalizedMode bool // the watcher under test polls the finalized head (set by Start)
	AfterReceipt  func(s *Sim, tx common.Hash) // hook: called (lock held) right after a receipt answer was computed
	ReobserveWindow bool                       // set by a script while it waits for a re-observation it has requested
	slowMu        sync.Mutex
	slow          map[string][]time.Duration
}

// SlowNext makes the next n calls of a JSON-RPC method arrive late (the handler sleeps before it looks at the
// simulator's state: a slow path, not a stale node).
func (s *Sim) SlowNext(method string, n int, d time.Duration) {
	s.slowMu.Lock()
	if s.slow == nil {
		s.slow = map[string][]time.Duration{}
	}
	for i := 0; i < n; i++ {
		s.slow[method] = append(s.slow[method], d)
	}
	s.slowMu.Unlock()
}

func (s *Sim) pre(method string) {
	s.slowMu.Lock()
	var d time.Duration
	if q := s.slow[method]; len(q) > 0 {
		d, s.slow[method] = q[0], q[1:]
	}
	s.slowMu.Unlock()
	if d > 0 {
		time.Sleep(d)
	}
}

type logSub struct {
	notifier *rpc.Notifier
	id       rpc.ID
	done     bool
}

func New(contract common.Address) (*Sim, error) {
	parsed, err := abi.JSON(strings.NewReader(ethAbi.AbiABI))
	if err != nil {
		return nil, err
	}
	s := &Sim{Contract: contract, canon: map[uint64]*Block{}, byHash: map[common.Hash]*Block{}, variants: map[uint64]int{}, Txs: map[common.Hash]*Tx{},
		ReceiptServed: map[common.Hash][]ReceiptAnswer{}, counts: map[string]int{}, Faults: map[string]map[int]string{}, abi: parsed,
		GuardianKeys: []common.Address{common.HexToAddress("0xbeFA429d57cD18b7F8A4d91A2da9AB4AF05d0FBe")}}
	s.rpcSrv = rpc.NewServer()
	if err := s.rpcSrv.RegisterName("eth", &ethAPI{s}); err != nil {
		return nil, err
	}
	s.srv = httptest.NewServer(s.rpcSrv.WebsocketHandler([]string{"*"}))
	s.Head = 1000
	s.blockAt(1000)
	return s, nil
}

func (s *Sim) URL() string { return "ws" + strings.TrimPrefix(s.srv.URL, "http") }
func (s *Sim) Close() {
	s.rpcSrv.Stop()
	s.srv.CloseClientConnections()
	s.srv.Close()
}

// blockAt returns (creating if needed) the canonical block at number n. Lock held.
func (s *Sim) blockAt(n uint64) *Block {
	if b, ok := s.canon[n]; ok {
		return b
	}
	return s.newBlock(n)
}

func (s *Sim) newBlock(n uint64) *Block {
	v := s.variants[n]
	s.variants[n] = v + 1
	b := &Block{Number: n, Variant: v, Time: 1700000000 + n*16 + uint64(v)}
	b.Hash = common.BigToHash(new(big.Int).SetUint64(n*1000003 + uint64(v)*7919 + 0x5eed0000))
	s.canon[n] = b
	s.byHash[b.Hash] = b
	return b
}

func (s *Sim) Mutate(what string, f func(s *Sim)) {
	s.mu.Lock()
	defer s.mu.Unlock()
	s.Version++
	f(s)
	s.Log = append(s.Log, LogEntry{N: len(s.Log), Version: s.Version, Method: "MUTATION", Detail: what})
}

func (s *Sim) WithLock(f func()) { s.mu.Lock(); defer s.mu.Unlock(); f() }

// AdvanceHead moves the head served for latest/finalized/safe to n.
func (s *Sim) AdvanceHead(n uint64) {
	if n > s.Head {
		s.Head = n
	}
}

// Include puts tx into the canonical block at number n and notifies log subscribers.
func (s *Sim) Include(tx *Tx, n uint64) *Block {
	b := s.blockAt(n)
	tx.Block = b
	s.Txs[tx.Hash] = tx
	s.pushLogs(tx, b, false)
	return b
}

// ReplaceBlock makes a new block canonical at number n (a one-block reorg). Transactions of the
// old block are moved to the new block (move=true) or leave the canonical chain.
func (s *Sim) ReplaceBlock(n uint64, move bool) (old, nb *Block) {
	old = s.canon[n]
	nb = s.newBlock(n)
	for _, tx := range s.Txs {
		if tx.Block == old && old != nil {
			s.pushLogs(tx, old, true)
			if move {
				tx.Block = nb
				s.pushLogs(tx, nb, false)
			} else {
				tx.Block = nil
			}
		}
	}
	return old, nb
}

// RemineLater is a reorg that moves tx from its block to a block d numbers higher: every canonical block from the
// old inclusion upward is replaced (their other transactions move along), tx is included in the new block at
// old+d, and the node pushes the removed log of the old inclusion and the log of the new one - in either order, as
// nothing orders the two notifications. Lock held (call inside Mutate).
func (s *Sim) RemineLater(tx *Tx, d uint64, newFirst bool) (old, nb *Block) {
	old = tx.Block
	if old == nil {
		return nil, nil
	}
	n := old.Number
	top := s.Head
	for k := range s.canon {
		if k > top {
			top = k
		}
	}
	tx.Block = nil
	for k := n; k <= top; k++ {
		if _, ok := s.canon[k]; ok {
			s.ReplaceBlock(k, true)
		}
	}
	nb = s.blockAt(n + d)
	tx.Block = nb
	if newFirst {
		s.pushLogs(tx, nb, false)
		s.pushLogs(tx, old, true)
	} else {
		s.pushLogs(tx, old, true)
		s.pushLogs(tx, nb, false)
	}
	if n+d > s.Head {
		s.Head = n + d
	}
	return old, nb
}

func (s *Sim) logsOf(tx *Tx, b *Block, removed bool) []*types.Log {
	var out []*types.Log
	for i, l := range tx.Logs {
		data, err := s.abi.Events["LogMessagePublished"].Inputs.NonIndexed().Pack(l.Target, l.Seq, l.Nonce, l.Payload, l.CL)
		if err != nil {
			panic(err)
		}
		out = append(out, &types.Log{Address: l.Address, Topics: []common.Hash{l.Topic0, common.BytesToHash(l.Sender.Bytes())}, Data: data,
			BlockNumber: b.Number, TxHash: tx.Hash, TxIndex: 0, BlockHash: b.Hash, Index: uint(i), Removed: removed})
	}
	return out
}

func (s *Sim) pushLogs(tx *Tx, b *Block, removed bool) {
	for _, l := range s.logsOf(tx, b, removed) {
		if l.Address != s.Contract || l.Topics[0] != Topic {
			continue // the node filters by the subscription's address and topic
		}
		for _, sub := range s.subs {
			if !sub.done {
				if err := sub.notifier.Notify(sub.id, l); err != nil {
					sub.done = true
				}
			}
		}
		s.Log = append(s.Log, LogEntry{N: len(s.Log), Version: s.Version, Method: "PUSH-LOG", Detail: fmt.Sprintf("tx=%x block=%d/%d removed=%v", tx.Hash[:4], b.Number, b.Variant, removed)})
	}
}

func (s *Sim) Count(method string) int {
	s.mu.Lock()
	defer s.mu.Unlock()
	return s.counts[method]
}
func (s *Sim) CountLocked(method string) int { return s.counts[method] }

func (s *Sim) Subscribers() int {
	s.mu.Lock()
	defer s.mu.Unlock()
	n := 0
	for _, x := range s.subs {
		if !x.done {
			n++
		}
	}
	return n
}

func (s *Sim) LogLen() (int, int) {
	s.mu.Lock()
	defer s.mu.Unlock()
	return s.Version, len(s.Log)
}

func (s *Sim) LogCopy() []LogEntry {
	s.mu.Lock()
	defer s.mu.Unlock()
	return append([]LogEntry{}, s.Log...)
}

// enter records the call and applies an injected fault. Lock held.
func (s *Sim) enter(method, detail string) error {
	s.counts[method]++
	if m, ok := s.Faults[method][s.counts[method]]; ok {
		s.Log = append(s.Log, LogEntry{N: len(s.Log), Version: s.Version, Method: method, Detail: detail, Err: m})
		// the fault value selects the wording: providers report transient trouble in many ways, some of which contain
		// the words "not found" without meaning that the object does not exist
		switch m {
		case "header-not-found":
			return errors.New("header not found")
		case "block-not-found":
			return errors.New("block not found")
		case "missing-trie-node":
			return errors.New("missing trie node 5f4d (path ) state 0x5f4d is not available, not found")
		}
		return errors.New("injected RPC failure")
	}
	s.Log = append(s.Log, LogEntry{N: len(s.Log), Version: s.Version, Method: method, Detail: detail})
	return nil
}

// ---------------------------------------------------------------- JSON-RPC service

type ethAPI struct{ s *Sim }

func toMap(v interface{}) map[string]interface{} {
	b, _ := json.Marshal(v)
	var m map[string]interface{}
	_ = json.Unmarshal(b, &m)
	return m
}

func (s *Sim) headerJSON(b *Block) map[string]interface{} {
	h := &types.Header{Number: new(big.Int).SetUint64(b.Number), Time: b.Time, Difficulty: big.NewInt(0), GasLimit: 30000000, Extra: []byte{}}
	m := toMap(h)
	m["hash"] = b.Hash
	return m
}

func (a *ethAPI) GetBlockByNumber(ctx context.Context, tag string, full bool) (map[string]interface{}, error) {
	s := a.s
	s.pre("getBlockByNumber")
	s.mu.Lock()
	defer s.mu.Unlock()
	if err := s.enter("getBlockByNumber", tag); err != nil {
		return nil, err
	}
	var b *Block
	switch tag {
	case "latest", "finalized", "safe":
		b = s.blockAt(s.Head)
		if tag == "latest" && s.FinalizedMode {
			// where finality is read from the "finalized" tag, "latest" is the tip of what has been mined
			tip := s.Head
			for n := range s.canon {
				if n > tip {
					tip = n
				}
			}
			b = s.blockAt(tip)
			s.Log[len(s.Log)-1].Detail = fmt.Sprintf("%s -> %d (not a finalized head)", tag, b.Number)
			return s.headerJSON(b), nil // not recorded as a served head: it is no evidence of finality
		}
	default:
		n, err := hexutil.DecodeUint64(tag)
		if err != nil || n > s.Head {
			return nil, nil
		}
		b = s.blockAt(n)
	}
	s.HeadServed = append(s.HeadServed, struct {
		LogN int
		Head uint64
	}{len(s.Log), b.Number})
	s.Log[len(s.Log)-1].Detail = fmt.Sprintf("%s -> %d", tag, b.Number)
	return s.headerJSON(b), nil
}

// BlockNumber answers eth_blockNumber: the latest block the node knows. Where the watcher polls the finalized head
// (FinalizedMode) the latest block is the highest one mined - transactions "mined ahead of the served head" are in
// blocks between the finalized head and this tip; elsewhere it is the served head itself.
func (a *ethAPI) BlockNumber(ctx context.Context) (hexutil.Uint64, error) {
	s := a.s
	s.pre("blockNumber")
	s.mu.Lock()
	defer s.mu.Unlock()
	if err := s.enter("blockNumber", ""); err != nil {
		return 0, err
	}
	tip := s.Head
	if s.FinalizedMode {
		for n := range s.canon {
			if n > tip {
				tip = n
			}
		}
	}
	s.Log[len(s.Log)-1].Detail = fmt.Sprintf("-> %d (served head %d)", tip, s.Head)
	return hexutil.Uint64(tip), nil
}

func (a *ethAPI) GetBlockByHash(ctx context.Context, hash common.Hash, full bool) (map[string]interface{}, error) {
	s := a.s
	s.pre("getBlockByHash")
	s.mu.Lock()
	defer s.mu.Unlock()
	if err := s.enter("getBlockByHash", hash.Hex()[:10]); err != nil {
		return nil, err
	}
	b, ok := s.byHash[hash]
	if !ok {
		return nil, nil
	}
	return s.headerJSON(b), nil
}

func (a *ethAPI) GetTransactionReceipt(ctx context.Context, hash common.Hash) (map[string]interface{}, error) {
	s := a.s
	s.pre("getTransactionReceipt")
	s.mu.Lock()
	defer s.mu.Unlock()
	if err := s.enter("getTransactionReceipt", hash.Hex()[:10]); err != nil {
		return nil, err
	}
	tx, ok := s.Txs[hash]
	if !ok || tx.Block == nil {
		s.ReceiptServed[hash] = append(s.ReceiptServed[hash], ReceiptAnswer{LogN: len(s.Log)})
		s.Log[len(s.Log)-1].Detail += " -> not found"
		return nil, nil
	}
	r := &types.Receipt{Status: tx.Status, CumulativeGasUsed: 21000, Logs: s.logsOf(tx, tx.Block, false), TxHash: tx.Hash, GasUsed: 21000,
		BlockHash: tx.Block.Hash, BlockNumber: new(big.Int).SetUint64(tx.Block.Number), TransactionIndex: 0}
	if r.Logs == nil {
		r.Logs = []*types.Log{}
	}
	if tx.Status == 0 && tx.Hash[0]%2 == 0 {
		// some nodes / archive formats also carry the pre-Byzantium state root in the receipt of a failed transaction
		r.PostState = common.BigToHash(new(big.Int).SetBytes(tx.Hash[:8])).Bytes()
	}
	s.ReceiptServed[hash] = append(s.ReceiptServed[hash], ReceiptAnswer{LogN: len(s.Log), Found: true, BlockHash: tx.Block.Hash, Status: tx.Status})
	s.Log[len(s.Log)-1].Detail += fmt.Sprintf(" -> block %d/%d status %d", tx.Block.Number, tx.Block.Variant, tx.Status)
	m := toMap(r)
	if s.AfterReceipt != nil {
		s.AfterReceipt(s, hash) // the chain moves on right after this answer was computed
	}
	return m, nil
}

type callArgs struct {
	To    *common.Address `json:"to"`
	Data  *hexutil.Bytes  `json:"data"`
	Input *hexutil.Bytes  `json:"input"`
}

func (a *ethAPI) Call(ctx context.Context, args callArgs, block interface{}) (hexutil.Bytes, error) {
	s := a.s
	s.mu.Lock()
	defer s.mu.Unlock()
	if err := s.enter("call", ""); err != nil {
		return nil, err
	}
	var data []byte
	if args.Data != nil {
		data = *args.Data
	} else if args.Input != nil {
		data = *args.Input
	}
	if len(data) < 4 {
		return nil, errors.New("execution reverted")
	}
	m, err := s.abi.MethodById(data[:4])
	if err != nil {
		return nil, errors.New("execution reverted")
	}
	switch m.Name {
	case "getCurrentGuardianSetIndex":
		return m.Outputs.Pack(uint32(0))
	case "getGuardianSet":
		return m.Outputs.Pack(ethAbi.StructsGuardianSet{Keys: s.GuardianKeys, ExpirationTime: 0})
	}
	return nil, errors.New("execution reverted")
}

func (a *ethAPI) ChainId() hexutil.Uint64 { return 1 }

// Logs serves eth_subscribe("logs", ...).
func (a *ethAPI) Logs(ctx context.Context, crit map[string]interface{}) (*rpc.Subscription, error) {
	notifier, ok := rpc.NotifierFromContext(ctx)
	if !ok {
		return nil, rpc.ErrNotificationsUnsupported
	}
	sub := notifier.CreateSubscription()
	s := a.s
	s.mu.Lock()
	ls := &logSub{notifier: notifier, id: sub.ID}
	s.subs = append(s.subs, ls)
	_ = s.enter("subscribe-logs", "")
	s.mu.Unlock()
	go func() {
		<-sub.Err()
		s.mu.Lock()
		ls.done = true
		s.mu.Unlock()
	}()
	return sub, nil
}
