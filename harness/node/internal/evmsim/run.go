package evmsim

import (
	"go.uber.org/zap/zapcore"
	"strings"
	"math/rand"
	"io"
	"bytes"
	"context"
	"fmt"
	"sync"
	"sync/atomic"
	"time"

	"github.com/alephium/wormhole-fork/node/pkg/common"
	"github.com/alephium/wormhole-fork/node/pkg/ethereum"
	gossipv1 "github.com/alephium/wormhole-fork/node/pkg/proto/gossip/v1"
	"github.com/alephium/wormhole-fork/node/pkg/supervisor"
	"github.com/alephium/wormhole-fork/node/pkg/vaa"
	ethcommon "github.com/ethereum/go-ethereum/common"
	"go.uber.org/zap"
)

type Arrival struct {
	Msg   *common.MessagePublication
	LogN  int
	Reobs bool
}

type Harness struct {
	Sim      *Sim
	W        *ethereum.Watcher
	Chain    vaa.ChainID
	WaitConf bool
	ObsvReqC chan *gossipv1.ObservationRequest
	msgC     chan *common.MessagePublication
	mu       sync.Mutex
	Arrivals []Arrival
	inReobs  atomic.Bool
	curReobs ethcommon.Hash // the transaction of the re-observation request in flight
	logMu        sync.Mutex
	logRng       *rand.Rand
	logDelayProb float64
	logDelayMax  time.Duration
	logDelayOnly string
	ReobsN   map[ethcommon.Hash]int
	cancel   context.CancelFunc
	RunExits int32
}

// Start runs the real EVM watcher against the simulator. mode "eth": chain Ethereum read at the
// finalized head, no extra confirmations; mode "bsc": latest head + consistency-level confirmations.
func Start(sim *Sim, mode string, pollMs uint) *Harness {
	h := &Harness{Sim: sim, ObsvReqC: make(chan *gossipv1.ObservationRequest), msgC: make(chan *common.MessagePublication), ReobsN: map[ethcommon.Hash]int{}}
	h.logRng = rand.New(rand.NewSource(int64(pollMs) + 77))
	h.Chain, h.WaitConf = vaa.ChainIDEthereum, false
	if mode == "bsc" {
		h.Chain, h.WaitConf = vaa.ChainIDBSC, true
	}
	sim.WithLock(func() { sim.FinalizedMode = mode != "bsc" })
	p := pollMs
	h.W = ethereum.NewEthWatcher(sim.URL(), sim.Contract, mode, "evm-verif", h.Chain, h.msgC, nil, h.ObsvReqC, false, &p, h.WaitConf)
	ctx, cancel := context.WithCancel(context.Background())
	h.cancel = cancel
	go func() {
		for {
			select {
			case <-ctx.Done():
				return
			case m := <-h.msgC:
				// read the path flag first: the re-observation handler cannot take the sentinel request (which
				// ends the window) before this receive has completed
				reobs := h.inReobs.Load()
				if reobs { // only the transaction that is being re-observed can arrive by that path
					h.mu.Lock()
					reobs = m.TxHash == h.curReobs
					h.mu.Unlock()
				}
				_, n := sim.LogLen()
				h.mu.Lock()
				h.Arrivals = append(h.Arrivals, Arrival{Msg: m, LogN: n, Reobs: reobs})
				h.mu.Unlock()
			}
		}
	}()
	// The watcher's log statements are used as delay points: output is discarded, but a hook may sleep for a moment when a
	// line is written (SetLogDelay). Log lines sit between critical sections, which is where a pause changes what can
	// interleave with what - nothing in the watcher is modified.
	core := zapcore.NewCore(zapcore.NewJSONEncoder(zap.NewProductionEncoderConfig()), zapcore.AddSync(io.Discard), zapcore.DebugLevel)
	logger := zap.New(core, zap.Hooks(func(e zapcore.Entry) error {
		h.logMu.Lock()
		p, max, only := h.logDelayProb, h.logDelayMax, h.logDelayOnly
		var d time.Duration
		if p > 0 && (only == "" || strings.Contains(e.Message, only)) && h.logRng.Float64() < p {
			d = time.Duration(h.logRng.Int63n(int64(max))) + time.Millisecond
		}
		h.logMu.Unlock()
		if d > 0 {
			time.Sleep(d)
		}
		return nil
	}))
	supervisor.New(ctx, logger, func(ctx context.Context) error {
		if err := supervisor.Run(ctx, "ethwatch", func(ctx context.Context) error {
			err := h.W.Run(ctx)
			atomic.AddInt32(&h.RunExits, 1)
			return err
		}); err != nil {
			return err
		}
		supervisor.Signal(ctx, supervisor.SignalHealthy)
		<-ctx.Done()
		return nil
	})
	return h
}

func (h *Harness) Stop() {
	h.cancel()
	h.Sim.Close()
}

// ReobsCount is the number of re-observation requests sent for tx.
func (h *Harness) ReobsCount(tx ethcommon.Hash) int {
	h.mu.Lock()
	defer h.mu.Unlock()
	return h.ReobsN[tx]
}

func (h *Harness) arrivalCount() int {
	h.mu.Lock()
	defer h.mu.Unlock()
	return len(h.Arrivals)
}

func (h *Harness) ArrivalsCopy() []Arrival {
	h.mu.Lock()
	defer h.mu.Unlock()
	return append([]Arrival{}, h.Arrivals...)
}

// WaitReady waits until the watcher has subscribed to logs.
func (h *Harness) WaitReady(wd time.Duration) bool {
	deadline := time.Now().Add(wd)
	for time.Now().Before(deadline) {
		if h.Sim.Subscribers() > 0 && h.Sim.Count("getBlockByNumber") > 0 {
			return true
		}
		time.Sleep(time.Millisecond)
	}
	return false
}

// Quiesce waits until the watcher has digested the current chain state: either nothing is pending
// any more, or it has polled the head n more times; and no message arrived for 150 ms.
func (h *Harness) Quiesce(n int, wd time.Duration) bool {
	deadline := time.Now().Add(wd)
	p0 := h.Sim.Count("getBlockByNumber")
	arr, last := h.arrivalCount(), time.Now()
	settle := time.Now()
	lastPolls, lastPollChange := p0, time.Now()
	for time.Now().Before(deadline) {
		aa := h.arrivalCount()
		if aa != arr {
			arr, last = aa, time.Now()
			p0 = h.Sim.Count("getBlockByNumber")
		}
		pending := h.W.VerifPendingCount()
		stable := time.Since(last) > 150*time.Millisecond && time.Since(settle) > 60*time.Millisecond
		polls := h.Sim.Count("getBlockByNumber")
		if stable && (pending == 0 || polls >= p0+n) {
			return true
		}
		// pending messages but the watcher does not poll the head at all (e.g. a restarted run whose
		// poller is still switched off): the state is stable, nothing more will happen by waiting
		if polls != lastPolls {
			lastPolls, lastPollChange = polls, time.Now()
		} else if stable && time.Since(lastPollChange) > 1500*time.Millisecond {
			return true
		}
		time.Sleep(300 * time.Microsecond)
	}
	return false
}

// Reobserve sends a re-observation request and returns when it has been handled completely.
func (h *Harness) Reobserve(tx ethcommon.Hash, wd time.Duration) bool {
	h.mu.Lock()
	h.ReobsN[tx]++
	h.curReobs = tx
	h.mu.Unlock()
	h.inReobs.Store(true)
	defer func() {
		time.Sleep(5 * time.Millisecond)
		h.inReobs.Store(false)
	}()
	send := func(r *gossipv1.ObservationRequest) bool {
		select {
		case h.ObsvReqC <- r:
			return true
		case <-time.After(wd):
			return false
		}
	}
	if !send(&gossipv1.ObservationRequest{ChainId: uint32(h.Chain), TxHash: tx.Bytes()}) {
		return false
	}
	// sentinel: an unknown transaction; taken only after the previous request was handled
	return send(&gossipv1.ObservationRequest{ChainId: uint32(h.Chain), TxHash: ethcommon.HexToHash("0xdead").Bytes()})
}

type Finding struct {
	Class   string
	Witness map[string]interface{}
}

// find the ground-truth log a message was made from
func (h *Harness) match(m *common.MessagePublication) (*Tx, *LogSpec, *Block) {
	var tx *Tx
	h.Sim.WithLock(func() { tx = h.Sim.Txs[m.TxHash] })
	if tx == nil {
		return nil, nil, nil
	}
	for _, l := range tx.Logs {
		if l.Seq == m.Sequence && bytes.Equal(l.Payload, m.Payload) && l.Nonce == m.Nonce && uint16(m.TargetChain) == l.Target && m.ConsistencyLevel == l.CL &&
			m.EmitterAddress == ethereum.PadAddress(l.Sender) && m.EmitterChain == h.Chain {
			var blk *Block
			h.Sim.WithLock(func() {
				for _, b := range h.Sim.byHash {
					if int64(b.Time) == m.Timestamp.Unix() {
						blk = b
					}
				}
			})
			return tx, l, blk
		}
	}
	return tx, nil, nil
}

// JudgeSafety applies the C10 safety oracle to every arrival, using what the simulator actually
// served before the message arrived (head answers and receipt answers).
func (h *Harness) JudgeSafety(desc string, trace []string) []Finding {
	var out []Finding
	seen := map[string]int{}
	for _, a := range h.ArrivalsCopy() {
		path := "poll"
		if a.Reobs {
			path = "reobserve"
		}
		w := map[string]interface{}{"script": desc, "trace": trace, "path": path, "message": fmt.Sprintf("tx=%x seq=%d cl=%d ts=%d", a.Msg.TxHash[:4], a.Msg.Sequence, a.Msg.ConsistencyLevel, a.Msg.Timestamp.Unix())}
		tx, l, blk := h.match(a.Msg)
		if tx == nil || l == nil || blk == nil {
			out = append(out, Finding{path + ":delivered-message-matches-no-emitted-log", w})
			continue
		}
		w["log"] = fmt.Sprintf("%s in block %d/%d", l.Note, blk.Number, blk.Variant)
		key := fmt.Sprintf("%x/%d/%x", tx.Hash, l.Seq, blk.Hash)
		seen[key]++
		var maxHead, maxHeadBeforeReceipt uint64
		var lastReceipt *ReceiptAnswer
		reobsN := 0
		h.Sim.WithLock(func() {
			rs := h.Sim.ReceiptServed[tx.Hash]
			for i := range rs {
				if rs[i].LogN <= a.LogN {
					lastReceipt = &rs[i]
				}
			}
			for _, hs := range h.Sim.HeadServed {
				if hs.LogN <= a.LogN && hs.Head > maxHead {
					maxHead = hs.Head
				}
				if lastReceipt != nil && hs.LogN <= lastReceipt.LogN && hs.Head > maxHeadBeforeReceipt {
					maxHeadBeforeReceipt = hs.Head
				}
			}
		})
		h.mu.Lock()
		reobsN = h.ReobsN[tx.Hash]
		h.mu.Unlock()
		if seen[key] > 1+reobsN {
			out = append(out, Finding{path + ":message-forwarded-more-than-once", w})
		}
		need := blk.Number
		if h.WaitConf {
			need += uint64(l.CL)
		}
		w["head_served_before_arrival"], w["required_head"] = maxHead, need
		switch {
		case l.Address != h.Sim.Contract:
			out = append(out, Finding{path + ":log-of-foreign-contract-forwarded", w})
		case l.Topic0 != Topic:
			out = append(out, Finding{path + ":log-with-other-topic-forwarded", w})
		case lastReceipt == nil:
			out = append(out, Finding{path + ":forwarded-without-receipt-lookup", w})
		case !lastReceipt.Found:
			out = append(out, Finding{path + ":forwarded-although-last-receipt-answer-was-not-found", w})
		case lastReceipt.Status != 1:
			out = append(out, Finding{path + ":failed-transaction-forwarded", w})
		case lastReceipt.BlockHash != blk.Hash:
			out = append(out, Finding{path + ":forwarded-for-a-block-the-receipt-no-longer-points-to", w})
		case maxHead < need:
			out = append(out, Finding{path + ":forwarded-before-required-depth", w})
		case maxHeadBeforeReceipt < need:
			// "... and at that moment the transaction's receipt still points to the same block": the receipt has to be (re-)checked
			// once the depth is known, not the other way round - a head read after the receipt says nothing about the block the
			// receipt named
			w["head_served_before_the_last_receipt_answer"] = maxHeadBeforeReceipt
			out = append(out, Finding{path + ":depth-learnt-only-after-the-last-receipt-answer", w})
		}
	}
	return out
}

// SetLogDelay makes the watcher pause for up to max (probability p) whenever it writes a log line containing `only`
// ("" = any line). p = 0 switches the pauses off.
func (h *Harness) SetLogDelay(p float64, max time.Duration, only string) {
	h.logMu.Lock()
	h.logDelayProb, h.logDelayMax, h.logDelayOnly = p, max, only
	h.logMu.Unlock()
}
