package csrc

import (
	"fmt"
	"os"
	"regexp"
	"strings"
)

// Ralph is a set of parsed Ralph sources: constants, enum members and function bodies.
type Ralph struct {
	Consts Env
	funcs  map[string]string
}

var (
	reConst = regexp.MustCompile(`(?m)^\s*const\s+([A-Za-z_][A-Za-z0-9_]*)\s*=\s*([^\n/]+)`)
	reEnum  = regexp.MustCompile(`(?s)enum\s+([A-Za-z_][A-Za-z0-9_]*)\s*\{(.*?)\}`)
	reMemb  = regexp.MustCompile(`([A-Za-z_][A-Za-z0-9_]*)\s*=\s*(#[0-9a-fA-F]*|[0-9][0-9a-fA-Fx_]*)`)
	reFn    = regexp.MustCompile(`\bfn\s+([A-Za-z_][A-Za-z0-9_]*)\s*\(`)
)

func LoadRalph(paths ...string) (*Ralph, error) {
	r := &Ralph{Consts: Env{}, funcs: map[string]string{}}
	for _, p := range paths {
		b, err := os.ReadFile(p)
		if err != nil {
			return nil, err
		}
		src := stripComments(string(b))
		for _, m := range reConst.FindAllStringSubmatch(src, -1) {
			v, err := Eval(strings.TrimSpace(m[2]), r.Consts)
			if err == nil && v.K != KUnknown {
				r.Consts[m[1]] = v
			}
		}
		for _, m := range reEnum.FindAllStringSubmatch(src, -1) {
			for _, mm := range reMemb.FindAllStringSubmatch(m[2], -1) {
				v, err := Eval(mm[2], nil)
				if err == nil && v.K != KUnknown {
					r.Consts[m[1]+"."+mm[1]] = v
				}
			}
		}
		for _, loc := range reFn.FindAllStringSubmatchIndex(src, -1) {
			name := src[loc[2]:loc[3]]
			i := loc[1] - 1 // at '('
			depth := 0
			for ; i < len(src); i++ {
				if src[i] == '(' {
					depth++
				} else if src[i] == ')' {
					depth--
					if depth == 0 {
						break
					}
				}
			}
			for i < len(src) && src[i] != '{' {
				i++
			}
			if i >= len(src) {
				continue
			}
			start := i + 1
			depth = 0
			for ; i < len(src); i++ {
				if src[i] == '{' {
					depth++
				} else if src[i] == '}' {
					depth--
					if depth == 0 {
						break
					}
				}
			}
			if i < len(src) {
				r.funcs[name] = src[start:i]
			}
		}
	}
	return r, nil
}

func stripComments(s string) string {
	var out []string
	for _, l := range strings.Split(s, "\n") {
		if i := strings.Index(l, "//"); i >= 0 {
			l = l[:i]
		}
		out = append(out, l)
	}
	return strings.Join(out, "\n")
}

func (r *Ralph) HasFunc(name string) bool { _, ok := r.funcs[name]; return ok }

// statements splits a function body into logical statements (joining continuation lines).
func statements(body string) []string {
	var lines []string
	for _, l := range strings.Split(body, "\n") {
		l = strings.TrimSpace(l)
		if l != "" {
			lines = append(lines, l)
		}
	}
	var out []string
	cur := ""
	bal := func(s string) int { return strings.Count(s, "(") - strings.Count(s, ")") }
	endsOp := func(s string) bool {
		for _, op := range []string{"++", "+", "=", ",", "||", "&&", "*", "-", "/"} {
			if strings.HasSuffix(s, op) {
				return true
			}
		}
		return false
	}
	startsOp := func(s string) bool {
		for _, op := range []string{"++", "+ ", "||", "&&", "* ", "/ "} {
			if strings.HasPrefix(s, op) {
				return true
			}
		}
		return false
	}
	for i, l := range lines {
		if cur == "" {
			cur = l
		} else {
			cur += " " + l
		}
		if bal(cur) > 0 || endsOp(cur) {
			continue
		}
		if i+1 < len(lines) && startsOp(lines[i+1]) {
			continue
		}
		out = append(out, cur)
		cur = ""
	}
	if cur != "" {
		out = append(out, cur)
	}
	return out
}

// RunResult is the outcome of interpreting one function on one input.
type RunResult struct {
	Env            Env
	Returned       []Value
	Aborted        bool // the contract would revert
	AbortReason    string
	UnknownAsserts []string // asserts whose condition could not be evaluated (=> inconclusive if relevant)
	Skipped        []string // statements not interpreted
}

var (
	reLet      = regexp.MustCompile(`^let\s+(?:mut\s+)?([A-Za-z_][A-Za-z0-9_]*)\s*=\s*(.+)$`)
	reLetTuple = regexp.MustCompile(`^let\s*\(([^)]*)\)\s*=\s*(.+)$`)
	reAssign   = regexp.MustCompile(`^([A-Za-z_][A-Za-z0-9_]*)\s*=\s*([^=].*)$`)
	reAssert   = regexp.MustCompile(`^assert!\((.*)\)$`)
	reReturn   = regexp.MustCompile(`^return\b\s*(.*)$`)
)

// Run interprets the let / assert! / assignment / return statements of function fn top to
// bottom. Blocks ({ ... }) are skipped as a whole and recorded in Skipped. pre holds argument
// bindings and bindings for names produced by calls the interpreter cannot follow.
func (r *Ralph) Run(fn string, pre Env) (*RunResult, error) {
	body, ok := r.funcs[fn]
	if !ok {
		return nil, fmt.Errorf("function %s not found in contract sources", fn)
	}
	env := Env{}
	for k, v := range r.Consts {
		env[k] = v
	}
	for k, v := range pre {
		env[k] = v
	}
	res := &RunResult{Env: env}
	depth := 0
	for _, st := range statements(body) {
		if depth > 0 {
			depth += strings.Count(st, "{") - strings.Count(st, "}")
			continue
		}
		if strings.HasSuffix(st, "{") {
			res.Skipped = append(res.Skipped, st)
			depth += strings.Count(st, "{") - strings.Count(st, "}")
			continue
		}
		if m := reLetTuple.FindStringSubmatch(st); m != nil {
			for _, n := range strings.Split(m[1], ",") {
				n = strings.TrimSpace(strings.TrimPrefix(strings.TrimSpace(n), "mut "))
				if _, bound := pre[n]; !bound {
					env[n] = Unknown()
				}
			}
			continue
		}
		if m := reLet.FindStringSubmatch(st); m != nil {
			v, err := Eval(m[2], env)
			if err != nil {
				if isAbort(err) {
					res.Aborted, res.AbortReason = true, st+": "+err.Error()
					return res, nil
				}
				v = Unknown()
				if pv, bound := pre[m[1]]; bound { // the caller supplies what a call the interpreter cannot follow returns
					v = pv
				} else {
					res.Skipped = append(res.Skipped, st)
				}
			}
			if pv, bound := pre[m[1]]; bound && v.K == KUnknown {
				v = pv
			}
			env[m[1]] = v
			continue
		}
		if m := reAssert.FindStringSubmatch(st); m != nil {
			cond := m[1]
			if i := lastTopLevelComma(cond); i >= 0 {
				cond = cond[:i]
			}
			v, err := Eval(cond, env)
			if err != nil && isAbort(err) {
				res.Aborted, res.AbortReason = true, st+": "+err.Error()
				return res, nil
			}
			if err != nil || v.K != KBool {
				res.UnknownAsserts = append(res.UnknownAsserts, st)
				continue
			}
			if !v.T {
				res.Aborted, res.AbortReason = true, st
				return res, nil
			}
			continue
		}
		if m := reReturn.FindStringSubmatch(st); m != nil {
			for _, e := range splitTopLevel(m[1]) {
				v, err := Eval(e, env)
				if err != nil {
					v = Unknown()
				}
				res.Returned = append(res.Returned, v)
			}
			return res, nil
		}
		if m := reAssign.FindStringSubmatch(st); m != nil && !strings.Contains(m[1], "(") {
			v, err := Eval(m[2], env)
			if err != nil {
				if isAbort(err) {
					res.Aborted, res.AbortReason = true, st+": "+err.Error()
					return res, nil
				}
				v = Unknown()
			}
			env[m[1]] = v
			continue
		}
		res.Skipped = append(res.Skipped, st)
	}
	return res, nil
}

func isAbort(err error) bool { return err != nil && strings.Contains(err.Error(), ErrAbort.Error()) }

func lastTopLevelComma(s string) int {
	d := 0
	last := -1
	for i, c := range s {
		switch c {
		case '(':
			d++
		case ')':
			d--
		case ',':
			if d == 0 {
				last = i
			}
		}
	}
	return last
}

func splitTopLevel(s string) []string {
	var out []string
	d, st := 0, 0
	for i, c := range s {
		switch c {
		case '(':
			d++
		case ')':
			d--
		case ',':
			if d == 0 {
				out = append(out, strings.TrimSpace(s[st:i]))
				st = i + 1
			}
		}
	}
	if strings.TrimSpace(s[st:]) != "" {
		out = append(out, strings.TrimSpace(s[st:]))
	}
	return out
}

// LetExpr returns the right-hand side of `let <name> = ...` inside fn (for C07).
func (r *Ralph) LetExpr(fn, name string) (string, bool) {
	body, ok := r.funcs[fn]
	if !ok {
		return "", false
	}
	for _, st := range statements(body) {
		if m := reLet.FindStringSubmatch(st); m != nil && m[1] == name {
			return m[2], true
		}
	}
	return "", false
}
