// Package csrc builds, at run time and from the contract sources in the working tree, small
// reference interpreters for the straight-line parsing code of the Ralph and Solidity
// contracts. They are the "programs" side of the differential oracles of C04, C07, C11, C15.
// Anything the extractor does not understand yields an Unknown value / an error, which the
// monitors report as inconclusive - never as "held".
package csrc

import (
	"encoding/hex"
	"errors"
	"fmt"
	"math/big"
	"strings"

	"golang.org/x/crypto/sha3"
)

type Kind int

const (
	KUnknown Kind = iota
	KInt
	KBytes
	KBool
)

type Value struct {
	K Kind
	I *big.Int
	B []byte
	T bool
}

func Int(i int64) Value       { return Value{K: KInt, I: big.NewInt(i)} }
func BigInt(i *big.Int) Value { return Value{K: KInt, I: new(big.Int).Set(i)} }
func Bytes(b []byte) Value    { return Value{K: KBytes, B: append([]byte{}, b...)} }
func Bool(b bool) Value       { return Value{K: KBool, T: b} }
func Unknown() Value          { return Value{} }
func (v Value) String() string {
	switch v.K {
	case KInt:
		return v.I.String()
	case KBytes:
		return "#" + hex.EncodeToString(v.B)
	case KBool:
		return fmt.Sprint(v.T)
	}
	return "?"
}

// ErrAbort is a contract-side failure (assert!, out-of-range slice, overflow): the contract
// would revert on this input.
var ErrAbort = errors.New("contract aborts")

type token struct {
	kind string // id, int, bytes, op
	s    string
}

func tokenize(src string) ([]token, error) {
	var out []token
	i := 0
	for i < len(src) {
		c := src[i]
		switch {
		case c == ' ' || c == '\t' || c == '\n' || c == '\r':
			i++
		case c == '/' && i+1 < len(src) && src[i+1] == '/':
			for i < len(src) && src[i] != '\n' {
				i++
			}
		case c == '#':
			j := i + 1
			for j < len(src) && isHex(src[j]) {
				j++
			}
			out = append(out, token{"bytes", src[i+1 : j]})
			i = j
		case c >= '0' && c <= '9':
			j := i
			if c == '0' && i+1 < len(src) && (src[i+1] == 'x' || src[i+1] == 'X') {
				j = i + 2
				for j < len(src) && (isHex(src[j]) || src[j] == '_') {
					j++
				}
			} else {
				for j < len(src) && ((src[j] >= '0' && src[j] <= '9') || src[j] == '_') {
					j++
				}
			}
			out = append(out, token{"int", strings.ReplaceAll(src[i:j], "_", "")})
			i = j
		case isIdStart(c):
			j := i
			for j < len(src) && (isIdStart(src[j]) || (src[j] >= '0' && src[j] <= '9') || src[j] == '.') {
				j++
			}
			if j < len(src) && src[j] == '!' && !(j+1 < len(src) && src[j+1] == '=') {
				j++
			}
			out = append(out, token{"id", src[i:j]})
			i = j
		default:
			two := ""
			if i+1 < len(src) {
				two = src[i : i+2]
			}
			switch two {
			case "++", "==", "!=", "<=", ">=", "||", "&&", "->", "+=":
				out = append(out, token{"op", two})
				i += 2
				continue
			}
			if strings.ContainsRune("+-*/(),<>![]{}=;:%", rune(c)) {
				out = append(out, token{"op", string(c)})
				i++
				continue
			}
			return nil, fmt.Errorf("unexpected character %q", c)
		}
	}
	return out, nil
}

func isHex(c byte) bool {
	return (c >= '0' && c <= '9') || (c >= 'a' && c <= 'f') || (c >= 'A' && c <= 'F')
}
func isIdStart(c byte) bool {
	return (c >= 'a' && c <= 'z') || (c >= 'A' && c <= 'Z') || c == '_'
}

// Env holds identifier bindings.
type Env map[string]Value

type parser struct {
	toks []token
	pos  int
	env  Env
}

func (p *parser) peek() token {
	if p.pos < len(p.toks) {
		return p.toks[p.pos]
	}
	return token{"eof", ""}
}
func (p *parser) next() token { t := p.peek(); p.pos++; return t }
func (p *parser) accept(op string) bool {
	if t := p.peek(); t.kind == "op" && t.s == op {
		p.pos++
		return true
	}
	return false
}

// Eval evaluates a Ralph/Solidity arithmetic / byte-vector expression in env.
// Returns ErrAbort-wrapped errors for contract-side failures and other errors for syntax
// the evaluator does not know.
func Eval(src string, env Env) (Value, error) {
	toks, err := tokenize(src)
	if err != nil {
		return Unknown(), err
	}
	p := &parser{toks: toks, env: env}
	v, err := p.or()
	if err != nil {
		return Unknown(), err
	}
	if p.pos != len(p.toks) {
		return Unknown(), fmt.Errorf("trailing tokens in %q at %d", src, p.pos)
	}
	return v, nil
}

func (p *parser) or() (Value, error) {
	l, err := p.and()
	if err != nil {
		return l, err
	}
	for p.accept("||") {
		r, err := p.and()
		if err != nil {
			return r, err
		}
		if l.K != KBool || r.K != KBool {
			l = Unknown()
		} else {
			l = Bool(l.T || r.T)
		}
	}
	return l, nil
}
func (p *parser) and() (Value, error) {
	l, err := p.cmp()
	if err != nil {
		return l, err
	}
	for p.accept("&&") {
		r, err := p.cmp()
		if err != nil {
			return r, err
		}
		if l.K != KBool || r.K != KBool {
			l = Unknown()
		} else {
			l = Bool(l.T && r.T)
		}
	}
	return l, nil
}
func (p *parser) cmp() (Value, error) {
	l, err := p.add()
	if err != nil {
		return l, err
	}
	for {
		t := p.peek()
		if t.kind != "op" || !(t.s == "==" || t.s == "!=" || t.s == "<=" || t.s == ">=" || t.s == "<" || t.s == ">") {
			return l, nil
		}
		p.pos++
		r, err := p.add()
		if err != nil {
			return r, err
		}
		switch {
		case l.K == KInt && r.K == KInt:
			c := l.I.Cmp(r.I)
			l = Bool(map[string]bool{"==": c == 0, "!=": c != 0, "<=": c <= 0, ">=": c >= 0, "<": c < 0, ">": c > 0}[t.s])
		case l.K == KBytes && r.K == KBytes && (t.s == "==" || t.s == "!="):
			eq := string(l.B) == string(r.B)
			l = Bool(eq == (t.s == "=="))
		default:
			l = Unknown()
		}
	}
}

var maxU256 = new(big.Int).Sub(new(big.Int).Lsh(big.NewInt(1), 256), big.NewInt(1))

func (p *parser) add() (Value, error) {
	l, err := p.mul()
	if err != nil {
		return l, err
	}
	for {
		t := p.peek()
		if t.kind != "op" || !(t.s == "+" || t.s == "-" || t.s == "++") {
			return l, nil
		}
		p.pos++
		r, err := p.mul()
		if err != nil {
			return r, err
		}
		switch {
		case t.s == "++" && l.K == KBytes && r.K == KBytes:
			l = Bytes(append(append([]byte{}, l.B...), r.B...))
		case t.s == "+" && l.K == KInt && r.K == KInt:
			s := new(big.Int).Add(l.I, r.I)
			if s.Cmp(maxU256) > 0 {
				return Unknown(), fmt.Errorf("%w: U256 overflow", ErrAbort)
			}
			l = BigInt(s)
		case t.s == "-" && l.K == KInt && r.K == KInt:
			s := new(big.Int).Sub(l.I, r.I)
			if s.Sign() < 0 {
				return Unknown(), fmt.Errorf("%w: U256 underflow", ErrAbort)
			}
			l = BigInt(s)
		default:
			l = Unknown()
		}
	}
}
func (p *parser) mul() (Value, error) {
	l, err := p.unary()
	if err != nil {
		return l, err
	}
	for {
		t := p.peek()
		if t.kind != "op" || !(t.s == "*" || t.s == "/") {
			return l, nil
		}
		p.pos++
		r, err := p.unary()
		if err != nil {
			return r, err
		}
		if l.K != KInt || r.K != KInt {
			l = Unknown()
			continue
		}
		if t.s == "*" {
			s := new(big.Int).Mul(l.I, r.I)
			if s.Cmp(maxU256) > 0 {
				return Unknown(), fmt.Errorf("%w: U256 overflow", ErrAbort)
			}
			l = BigInt(s)
		} else {
			if r.I.Sign() == 0 {
				return Unknown(), fmt.Errorf("%w: division by zero", ErrAbort)
			}
			l = BigInt(new(big.Int).Quo(l.I, r.I)) // truncating, as uint256 / U256
		}
	}
}
func (p *parser) unary() (Value, error) {
	if p.accept("!") {
		v, err := p.unary()
		if err != nil {
			return v, err
		}
		if v.K != KBool {
			return Unknown(), nil
		}
		return Bool(!v.T), nil
	}
	if p.accept("-") {
		v, err := p.unary()
		if err != nil {
			return v, err
		}
		if v.K != KInt {
			return Unknown(), nil
		}
		return BigInt(new(big.Int).Neg(v.I)), nil
	}
	return p.primary()
}

func (p *parser) primary() (Value, error) {
	t := p.next()
	switch t.kind {
	case "int":
		n := new(big.Int)
		var ok bool
		if strings.HasPrefix(t.s, "0x") || strings.HasPrefix(t.s, "0X") {
			_, ok = n.SetString(t.s[2:], 16)
		} else {
			_, ok = n.SetString(t.s, 10)
		}
		if !ok {
			return Unknown(), fmt.Errorf("bad int %q", t.s)
		}
		return BigInt(n), nil
	case "bytes":
		b, err := hex.DecodeString(t.s)
		if err != nil {
			return Unknown(), fmt.Errorf("bad bytes literal #%s", t.s)
		}
		return Bytes(b), nil
	case "op":
		if t.s == "(" {
			v, err := p.or()
			if err != nil {
				return v, err
			}
			if !p.accept(")") {
				return Unknown(), errors.New("expected )")
			}
			return v, nil
		}
		return Unknown(), fmt.Errorf("unexpected %q", t.s)
	case "id":
		if p.accept("(") {
			var args []Value
			if !p.accept(")") {
				for {
					a, err := p.or()
					if err != nil {
						return a, err
					}
					args = append(args, a)
					if p.accept(")") {
						break
					}
					if !p.accept(",") {
						return Unknown(), errors.New("expected , or )")
					}
				}
			}
			return callBuiltin(t.s, args)
		}
		if v, ok := p.env[t.s]; ok {
			return v, nil
		}
		return Unknown(), nil
	}
	return Unknown(), fmt.Errorf("unexpected end of expression")
}

func callBuiltin(name string, a []Value) (Value, error) {
	for _, v := range a {
		if v.K == KUnknown {
			return Unknown(), nil
		}
	}
	var n int
	switch {
	case name == "byteVecSlice!" && len(a) == 3 && a[0].K == KBytes && a[1].K == KInt && a[2].K == KInt:
		if !a[1].I.IsInt64() || !a[2].I.IsInt64() {
			return Unknown(), fmt.Errorf("%w: slice bounds", ErrAbort)
		}
		from, to := a[1].I.Int64(), a[2].I.Int64()
		if from < 0 || to < from || to > int64(len(a[0].B)) {
			return Unknown(), fmt.Errorf("%w: byteVecSlice!(len %d, %d, %d)", ErrAbort, len(a[0].B), from, to)
		}
		return Bytes(a[0].B[from:to]), nil
	case name == "size!" && len(a) == 1 && a[0].K == KBytes:
		return Int(int64(len(a[0].B))), nil
	case len(a) == 1 && a[0].K == KBytes && scan(name, "u256From%dByte!", &n):
		if len(a[0].B) != n {
			return Unknown(), fmt.Errorf("%w: %s on %d bytes", ErrAbort, name, len(a[0].B))
		}
		return BigInt(new(big.Int).SetBytes(a[0].B)), nil
	case len(a) == 1 && a[0].K == KInt && scan(name, "u256To%dByte!", &n):
		if a[0].I.Sign() < 0 || a[0].I.BitLen() > 8*n {
			return Unknown(), fmt.Errorf("%w: %s(%s) overflows", ErrAbort, name, a[0].I)
		}
		b := make([]byte, n)
		a[0].I.FillBytes(b)
		return Bytes(b), nil
	case name == "toI256!" && len(a) == 1 && a[0].K == KInt:
		return a[0], nil
	case name == "keccak256!" && len(a) == 1 && a[0].K == KBytes:
		h := sha3.NewLegacyKeccak256()
		h.Write(a[0].B)
		return Bytes(h.Sum(nil)), nil
	}
	return Unknown(), nil
}

func scan(name, format string, n *int) bool {
	var k int
	if c, err := fmt.Sscanf(name, format, &k); err == nil && c == 1 && fmt.Sprintf(format, k) == name {
		switch k {
		case 1, 2, 4, 8, 16, 32:
			*n = k
			return true
		}
	}
	return false
}
