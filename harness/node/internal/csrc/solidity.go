package csrc

import (
	"encoding/binary"
	"fmt"
	"math/big"
	"os"
	"regexp"
	"strconv"
	"strings"
)

// SolFunctionBody returns the text between the braces of `function <name>(`.
func SolFunctionBody(path, name string) (string, error) {
	b, err := os.ReadFile(path)
	if err != nil {
		return "", err
	}
	src := stripComments(string(b))
	// drop /* */ comments
	src = regexp.MustCompile(`(?s)/\*.*?\*/`).ReplaceAllString(src, "")
	i := strings.Index(src, "function "+name+"(")
	if i < 0 {
		return "", fmt.Errorf("function %s not found in %s", name, path)
	}
	for i < len(src) && src[i] != '{' {
		i++
	}
	start := i + 1
	d := 0
	for ; i < len(src); i++ {
		if src[i] == '{' {
			d++
		} else if src[i] == '}' {
			d--
			if d == 0 {
				return src[start:i], nil
			}
		}
	}
	return "", fmt.Errorf("unbalanced braces in %s", name)
}

// SolReturnExpr extracts the expression of the single `return <expr>;` of a function.
func SolReturnExpr(path, name string) (string, error) {
	body, err := SolFunctionBody(path, name)
	if err != nil {
		return "", err
	}
	m := regexp.MustCompile(`return\s+([^;]+);`).FindAllStringSubmatch(body, -1)
	if len(m) != 1 {
		return "", fmt.Errorf("%s: expected exactly one return statement, found %d", name, len(m))
	}
	return strings.TrimSpace(m[0][1]), nil
}

// SolVM is what the interpreted parseVM produced.
type SolVM struct {
	Fields   map[string]uint64 // scalar vm.<field>
	Bytes32  map[string][]byte
	Sigs     []map[string][]byte // per signature: guardianIndex, r, s, v
	Body     []byte
	Payload  []byte
	HashBody bool // vm.hash = keccak256(abi.encodePacked(keccak256(body)))
}

var (
	reSolAssign = regexp.MustCompile(`^(vm\.[A-Za-z_\[\]\.]+|uint(?:256)?\s+[A-Za-z_]+)\s*=\s*encodedVM\.to(Uint8|Uint16|Uint32|Uint64|Bytes32)\(index\)\s*(?:\+\s*(\d+))?$`)
	reSolIndex  = regexp.MustCompile(`^index\s*\+=\s*(\d+)$`)
	reSolSlice  = regexp.MustCompile(`^(bytes memory body|vm\.payload)\s*=\s*encodedVM\.slice\(index,\s*encodedVM\.length\s*-\s*index\)$`)
	reSolFor    = regexp.MustCompile(`^for\s*\(uint i = 0; i < ([A-Za-z_]+); i\+\+\)\s*\{$`)
)

// SolParseVM interprets the straight-line parseVM script from the source on data. It returns
// revert=true when Solidity would revert (out-of-bounds read, failed require).
func SolParseVM(body string, data []byte) (vm *SolVM, revert bool, err error) {
	vm = &SolVM{Fields: map[string]uint64{}, Bytes32: map[string][]byte{}}
	var stmts []string
	for _, l := range strings.Split(body, "\n") {
		l = strings.TrimSpace(l)
		if l == "" {
			continue
		}
		l = strings.TrimSuffix(l, ";")
		stmts = append(stmts, l)
	}
	index := -1
	locals := map[string]uint64{}
	read := func(kind string) (uint64, []byte, bool) {
		n := map[string]int{"Uint8": 1, "Uint16": 2, "Uint32": 4, "Uint64": 8, "Bytes32": 32}[kind]
		if index < 0 || index+n > len(data) {
			return 0, nil, false
		}
		b := data[index : index+n]
		switch n {
		case 1:
			return uint64(b[0]), nil, true
		case 2:
			return uint64(binary.BigEndian.Uint16(b)), nil, true
		case 4:
			return uint64(binary.BigEndian.Uint32(b)), nil, true
		case 8:
			return binary.BigEndian.Uint64(b), nil, true
		}
		return 0, append([]byte{}, b...), true
	}
	var exec func(list []string, sigIdx int) (bool, error)
	exec = func(list []string, sigIdx int) (bool, error) {
		for i := 0; i < len(list); i++ {
			st := list[i]
			switch {
			case st == "uint index = 0":
				index = 0
			case reSolIndex.MatchString(st):
				k, _ := strconv.Atoi(reSolIndex.FindStringSubmatch(st)[1])
				index += k
			case reSolAssign.MatchString(st):
				m := reSolAssign.FindStringSubmatch(st)
				u, bs, ok := read(m[2])
				if !ok {
					return true, nil
				}
				if m[3] != "" {
					k, _ := strconv.Atoi(m[3])
					u += uint64(k)
				}
				target := m[1]
				switch {
				case strings.HasPrefix(target, "vm.signatures[i]."):
					f := strings.TrimPrefix(target, "vm.signatures[i].")
					if bs != nil {
						vm.Sigs[sigIdx][f] = bs
					} else {
						vm.Sigs[sigIdx][f] = []byte{byte(u)}
					}
				case strings.HasPrefix(target, "vm."):
					if bs != nil {
						vm.Bytes32[strings.TrimPrefix(target, "vm.")] = bs
					} else {
						vm.Fields[strings.TrimPrefix(target, "vm.")] = u
					}
				default:
					f := strings.Fields(target)
					locals[f[len(f)-1]] = u
				}
			case strings.HasPrefix(st, "require(vm.version == 1"):
				if vm.Fields["version"] != 1 {
					return true, nil
				}
			case strings.HasPrefix(st, "vm.signatures = new Structs.Signature[]("):
				n := locals[strings.TrimSuffix(strings.TrimPrefix(st, "vm.signatures = new Structs.Signature[]("), ")")]
				vm.Sigs = make([]map[string][]byte, n)
				for k := range vm.Sigs {
					vm.Sigs[k] = map[string][]byte{}
				}
			case reSolFor.MatchString(st):
				bound := locals[reSolFor.FindStringSubmatch(st)[1]]
				j := i + 1
				d := 1
				for ; j < len(list); j++ {
					if strings.HasSuffix(list[j], "{") {
						d++
					}
					if list[j] == "}" {
						d--
						if d == 0 {
							break
						}
					}
				}
				if j >= len(list) {
					return false, fmt.Errorf("unterminated for loop")
				}
				inner := list[i+1 : j]
				for k := uint64(0); k < bound; k++ {
					if rv, err := exec(inner, int(k)); rv || err != nil {
						return rv, err
					}
				}
				i = j
			case reSolSlice.MatchString(st):
				if index < 0 || index > len(data) {
					return true, nil
				}
				if strings.HasPrefix(st, "bytes memory body") {
					vm.Body = append([]byte{}, data[index:]...)
				} else {
					vm.Payload = append([]byte{}, data[index:]...)
				}
			case st == "vm.hash = keccak256(abi.encodePacked(keccak256(body)))":
				vm.HashBody = true
			default:
				return false, fmt.Errorf("parseVM statement not understood: %q", st)
			}
		}
		return false, nil
	}
	rv, err := exec(stmts, -1)
	return vm, rv, err
}

// ---------------------------------------------------------------- generic straight-line payload parsers

// SolParse is the outcome of interpreting one `parseXxx(bytes memory arg)` function of the Solidity sources.
type SolParse struct {
	Reverted bool
	Reason   string              // the statement that reverted
	Ints     map[string]*big.Int // every scalar assigned (struct fields without the struct prefix, locals)
	Lists    map[string][][]byte // name[i] = arg.toAddress(index) style assignments
}

type solVal struct {
	v    *big.Int
	bits int // 0: untyped literal
}

var (
	reSolRead    = regexp.MustCompile(`^(.+?)\s*=\s*([A-Za-z_]+)\.to(Bytes32|Uint8|Uint16|Uint32|Uint64|Uint256|Address)\(index\)$`)
	reSolReadAdr = regexp.MustCompile(`^(.+?)\s*=\s*address\(uint160\(uint256\(([A-Za-z_]+)\.toBytes32\(index\)\)\)\)$`)
	reSolRequire = regexp.MustCompile(`^require\((.*),\s*"([^"]*)"\)$`)
	reSolForGen  = regexp.MustCompile(`^for\s*\(\s*uint i = 0; i < ([A-Za-z_]+); i\+\+\)\s*\{$`)
	reSolDecl    = regexp.MustCompile(`^(uint\d*|bytes32|address)\s+([A-Za-z_][A-Za-z0-9_]*)$`)
)

var solWidth = map[string]int{"Bytes32": 32, "Uint8": 1, "Uint16": 2, "Uint32": 4, "Uint64": 8, "Uint256": 32, "Address": 20}

// SolRunParser interprets function fn of the contract source at path on data. consts binds names the function
// compares with (e.g. the contract's `module` constant). Arithmetic follows Solidity >= 0.8: operands of uintN types
// are combined in the wider of the two types (an integer literal takes the other operand's type) and an overflow
// reverts. A statement the interpreter does not understand is an error (the caller reports inconclusive).
func SolRunParser(path, fn string, data []byte, consts map[string]*big.Int) (*SolParse, error) {
	body, err := SolFunctionBody(path, fn)
	if err != nil {
		return nil, err
	}
	var stmts []string
	for _, l := range strings.Split(body, "\n") {
		l = strings.TrimSpace(strings.TrimSuffix(strings.TrimSpace(l), ";"))
		if l != "" {
			stmts = append(stmts, l)
		}
	}
	res := &SolParse{Ints: map[string]*big.Int{}, Lists: map[string][][]byte{}}
	vars := map[string]solVal{}
	for k, v := range consts {
		vars[k] = solVal{v, 256}
	}
	index := -1
	arg := ""
	short := func(lhs string) (name string, bits int) {
		lhs = strings.TrimSpace(lhs)
		if m := reSolDecl.FindStringSubmatch(lhs); m != nil {
			b := 256
			if strings.HasPrefix(m[1], "uint") && len(m[1]) > 4 {
				b, _ = strconv.Atoi(m[1][4:])
			}
			return m[2], b
		}
		if i := strings.LastIndex(lhs, "."); i >= 0 {
			lhs = lhs[i+1:]
		}
		return lhs, 0
	}
	var eval func(e string) (solVal, bool, error) // value, overflowed, error
	eval = func(e string) (solVal, bool, error) {
		e = strings.TrimSpace(e)
		// lowest precedence first: +, then *
		for _, op := range []string{"+", "*"} {
			depth := 0
			for i := len(e) - 1; i >= 0; i-- {
				switch e[i] {
				case ')':
					depth++
				case '(':
					depth--
				}
				if depth == 0 && string(e[i]) == op {
					a, oa, err := eval(e[:i])
					if err != nil || oa {
						return a, oa, err
					}
					b, ob, err := eval(e[i+1:])
					if err != nil || ob {
						return b, ob, err
					}
					bits := a.bits
					if b.bits > bits {
						bits = b.bits
					}
					out := new(big.Int)
					if op == "+" {
						out.Add(a.v, b.v)
					} else {
						out.Mul(a.v, b.v)
					}
					if bits == 0 {
						return solVal{out, 0}, false, nil
					}
					if out.BitLen() > bits {
						return solVal{out, bits}, true, nil
					}
					return solVal{out, bits}, false, nil
				}
			}
		}
		if strings.HasPrefix(e, "(") && strings.HasSuffix(e, ")") {
			return eval(e[1 : len(e)-1])
		}
		if n, ok := new(big.Int).SetString(e, 0); ok {
			return solVal{n, 0}, false, nil
		}
		if e == "index" {
			return solVal{big.NewInt(int64(index)), 256}, false, nil
		}
		if arg != "" && e == arg+".length" {
			return solVal{big.NewInt(int64(len(data))), 256}, false, nil
		}
		name, _ := short(e)
		if v, ok := vars[name]; ok {
			return v, false, nil
		}
		return solVal{}, false, fmt.Errorf("operand %q not understood", e)
	}
	var exec func(list []string, it int) error
	exec = func(list []string, it int) error {
		for i := 0; i < len(list) && !res.Reverted; i++ {
			st := list[i]
			switch {
			case st == "uint index = 0" || st == "uint256 index = 0":
				index = 0
			case reSolIndex.MatchString(st):
				k, _ := strconv.Atoi(reSolIndex.FindStringSubmatch(st)[1])
				index += k
			case reSolRead.MatchString(st) || reSolReadAdr.MatchString(st):
				var lhs, a, kind string
				asAddress := false
				if m := reSolReadAdr.FindStringSubmatch(st); m != nil {
					lhs, a, kind, asAddress = m[1], m[2], "Bytes32", true
				} else {
					m := reSolRead.FindStringSubmatch(st)
					lhs, a, kind = m[1], m[2], m[3]
				}
				arg = a
				n := solWidth[kind]
				if index < 0 || index+n > len(data) {
					res.Reverted, res.Reason = true, st+" (read past the end of the payload)"
					return nil
				}
				b := append([]byte{}, data[index:index+n]...)
				if asAddress {
					b = b[12:]
				}
				if strings.HasSuffix(strings.TrimSpace(lhs), "[i]") {
					name, _ := short(strings.TrimSuffix(strings.TrimSpace(lhs), "[i]"))
					res.Lists[name] = append(res.Lists[name], b)
					continue
				}
				name, bits := short(lhs)
				if bits == 0 {
					bits = 8 * len(b)
				}
				v := new(big.Int).SetBytes(b)
				vars[name] = solVal{v, bits}
				res.Ints[name] = v
			case reSolRequire.MatchString(st):
				cond := reSolRequire.FindStringSubmatch(st)[1]
				parts := strings.SplitN(cond, "==", 2)
				if len(parts) != 2 {
					return fmt.Errorf("require condition not understood: %q", st)
				}
				a, oa, err := eval(parts[0])
				if err != nil {
					return fmt.Errorf("%v in %q", err, st)
				}
				b, ob, err := eval(parts[1])
				if err != nil {
					return fmt.Errorf("%v in %q", err, st)
				}
				if oa || ob {
					res.Reverted, res.Reason = true, st+" (checked arithmetic overflows: Panic(0x11))"
					return nil
				}
				if a.v.Cmp(b.v) != 0 {
					res.Reverted, res.Reason = true, st
					return nil
				}
			case strings.HasSuffix(st, "({"): // struct literal spanning several lines: only allocations matter here
				for i++; i < len(list) && list[i] != "})"; i++ {
				}
			case reSolForGen.MatchString(st):
				bound, ok := vars[reSolForGen.FindStringSubmatch(st)[1]]
				if !ok {
					return fmt.Errorf("loop bound not understood: %q", st)
				}
				j, d := i+1, 1
				for ; j < len(list); j++ {
					if strings.HasSuffix(list[j], "{") {
						d++
					}
					if list[j] == "}" {
						d--
						if d == 0 {
							break
						}
					}
				}
				if j >= len(list) {
					return fmt.Errorf("unterminated for loop")
				}
				for k := int64(0); k < bound.v.Int64() && !res.Reverted; k++ {
					if err := exec(list[i+1:j], int(k)); err != nil {
						return err
					}
				}
				i = j
			default:
				return fmt.Errorf("statement not understood: %q", st)
			}
		}
		return nil
	}
	if err := exec(stmts, -1); err != nil {
		return nil, fmt.Errorf("%s: %v", fn, err)
	}
	return res, nil
}

// ---------------------------------------------------------------- general parseVM interpreter (fallback)

// SolParseVM2 interprets parseVM with the typed interpreter used for the governance parsers, extended by what a
// rewritten parseVM may use: typed locals with or without initialiser, plain assignments, `unchecked { ... }` blocks
// (arithmetic wraps in the operands' type instead of reverting), require with any comparison, array allocation,
// per-signature fields, `+ literal` after a read, slices with explicit bounds and the double-hash statement. It is
// tried when the literal interpreter (SolParseVM) meets a statement it does not know.
func SolParseVM2(body string, data []byte) (vm *SolVM, revert bool, err error) {
	vm = &SolVM{Fields: map[string]uint64{}, Bytes32: map[string][]byte{}}
	var stmts []string
	for _, l := range strings.Split(body, "\n") {
		l = strings.TrimSpace(strings.TrimSuffix(strings.TrimSpace(l), ";"))
		if l != "" {
			stmts = append(stmts, l)
		}
	}
	vars := map[string]solVal{}
	bytesVars := map[string][]byte{}
	index := -1
	unchecked := 0
	arg := "encodedVM"
	short := func(lhs string) (string, int) {
		lhs = strings.TrimSpace(lhs)
		if m := reSolDecl.FindStringSubmatch(lhs); m != nil {
			b := 256
			if strings.HasPrefix(m[1], "uint") && len(m[1]) > 4 {
				b, _ = strconv.Atoi(m[1][4:])
			}
			return m[2], b
		}
		return lhs, 0
	}
	wrap := func(v *big.Int, bits int) *big.Int {
		if bits <= 0 {
			return v
		}
		m := new(big.Int).Lsh(big.NewInt(1), uint(bits))
		return new(big.Int).Mod(v, m)
	}
	var eval func(e string) (solVal, bool, error)
	eval = func(e string) (solVal, bool, error) {
		e = strings.TrimSpace(e)
		for _, op := range []string{"+", "-", "*"} {
			depth := 0
			for i := len(e) - 1; i > 0; i-- {
				switch e[i] {
				case ')':
					depth++
				case '(':
					depth--
				}
				if depth == 0 && string(e[i]) == op {
					a, oa, err := eval(e[:i])
					if err != nil || oa {
						return a, oa, err
					}
					b, ob, err := eval(e[i+1:])
					if err != nil || ob {
						return b, ob, err
					}
					bits := a.bits
					if b.bits > bits {
						bits = b.bits
					}
					out := new(big.Int)
					switch op {
					case "+":
						out.Add(a.v, b.v)
					case "-":
						out.Sub(a.v, b.v)
					default:
						out.Mul(a.v, b.v)
					}
					if bits == 0 {
						return solVal{out, 0}, false, nil
					}
					if out.Sign() < 0 || out.BitLen() > bits {
						if unchecked > 0 {
							return solVal{wrap(out, bits), bits}, false, nil
						}
						return solVal{out, bits}, true, nil
					}
					return solVal{out, bits}, false, nil
				}
			}
		}
		if strings.HasPrefix(e, "(") && strings.HasSuffix(e, ")") {
			return eval(e[1 : len(e)-1])
		}
		if n, ok := new(big.Int).SetString(e, 0); ok {
			return solVal{n, 0}, false, nil
		}
		if e == "index" {
			return solVal{big.NewInt(int64(index)), 256}, false, nil
		}
		if e == arg+".length" {
			return solVal{big.NewInt(int64(len(data))), 256}, false, nil
		}
		if m := regexp.MustCompile(`^` + arg + `\.to(Uint8|Uint16|Uint32|Uint64|Bytes32)\(index\)$`).FindStringSubmatch(e); m != nil {
			n := solWidth[m[1]]
			if index < 0 || index+n > len(data) {
				return solVal{}, true, nil
			}
			return solVal{new(big.Int).SetBytes(data[index : index+n]), 8 * n}, false, nil
		}
		if v, ok := vars[e]; ok {
			return v, false, nil
		}
		if strings.HasPrefix(e, "vm.") {
			if u, ok := vm.Fields[strings.TrimPrefix(e, "vm.")]; ok {
				return solVal{new(big.Int).SetUint64(u), 256}, false, nil
			}
		}
		return solVal{}, false, fmt.Errorf("operand %q not understood", e)
	}
	reCmp := regexp.MustCompile(`^(.*?)(==|!=|>=|<=|>|<)(.*)$`)
	reSlice := regexp.MustCompile(`^(.+?)\s*=\s*` + arg + `\.slice\((.+),\s*(.+)\)$`)
	reNew := regexp.MustCompile(`^vm\.signatures\s*=\s*new Structs\.Signature\[\]\(([A-Za-z_]+)\)$`)
	var exec func(list []string, it int) (bool, error)
	exec = func(list []string, it int) (bool, error) {
		for i := 0; i < len(list); i++ {
			st := list[i]
			switch {
			case st == "unchecked {":
				unchecked++
			case st == "}" && unchecked > 0:
				unchecked--
			case reSolIndex.MatchString(st):
				k, _ := strconv.Atoi(reSolIndex.FindStringSubmatch(st)[1])
				index += k
			case reSolDecl.MatchString(st): // declaration without initialiser
				n, b := short(st)
				vars[n] = solVal{big.NewInt(0), b}
			case reSolRequire.MatchString(st):
				cond := reSolRequire.FindStringSubmatch(st)[1]
				m := reCmp.FindStringSubmatch(cond)
				if m == nil {
					return false, fmt.Errorf("require condition not understood: %q", st)
				}
				a, oa, err := eval(m[1])
				if err != nil {
					return false, err
				}
				b, ob, err := eval(m[3])
				if err != nil {
					return false, err
				}
				if oa || ob {
					return true, nil
				}
				c := a.v.Cmp(b.v)
				ok := map[string]bool{"==": c == 0, "!=": c != 0, ">=": c >= 0, "<=": c <= 0, ">": c > 0, "<": c < 0}[m[2]]
				if !ok {
					return true, nil
				}
			case reNew.MatchString(st):
				n, ok := vars[reNew.FindStringSubmatch(st)[1]]
				if !ok {
					return false, fmt.Errorf("allocation size not understood: %q", st)
				}
				vm.Sigs = make([]map[string][]byte, n.v.Int64())
				for k := range vm.Sigs {
					vm.Sigs[k] = map[string][]byte{}
				}
			case reSolForGen.MatchString(st):
				bound, ok := vars[reSolForGen.FindStringSubmatch(st)[1]]
				if !ok {
					return false, fmt.Errorf("loop bound not understood: %q", st)
				}
				j, d := i+1, 1
				for ; j < len(list); j++ {
					if strings.HasSuffix(list[j], "{") {
						d++
					}
					if list[j] == "}" {
						d--
						if d == 0 {
							break
						}
					}
				}
				if j >= len(list) {
					return false, fmt.Errorf("unterminated for loop")
				}
				for k := int64(0); k < bound.v.Int64(); k++ {
					if rv, err := exec(list[i+1:j], int(k)); rv || err != nil {
						return rv, err
					}
				}
				i = j
			case reSlice.MatchString(st):
				m := reSlice.FindStringSubmatch(st)
				a, oa, err := eval(m[2])
				if err != nil {
					return false, err
				}
				b, ob, err := eval(m[3])
				if err != nil {
					return false, err
				}
				if oa || ob || !a.v.IsInt64() || !b.v.IsInt64() || a.v.Int64() < 0 || b.v.Int64() < 0 || a.v.Int64()+b.v.Int64() > int64(len(data)) {
					return true, nil
				}
				bs := append([]byte{}, data[a.v.Int64():a.v.Int64()+b.v.Int64()]...)
				switch strings.TrimSpace(m[1]) {
				case "bytes memory body":
					bytesVars["body"] = bs
				case "vm.payload":
					vm.Payload = bs
				default:
					return false, fmt.Errorf("slice target not understood: %q", st)
				}
			case st == "vm.hash = keccak256(abi.encodePacked(keccak256(body)))":
				vm.HashBody = true
				vm.Body = bytesVars["body"]
			case strings.Contains(st, "=") && !strings.Contains(st, "=="):
				k := strings.Index(st, "=")
				lhs, rhs := strings.TrimSpace(st[:k]), strings.TrimSpace(st[k+1:])
				if m := regexp.MustCompile(`^` + arg + `\.toBytes32\(index\)$`).FindStringSubmatch(rhs); m != nil {
					if index < 0 || index+32 > len(data) {
						return true, nil
					}
					b := append([]byte{}, data[index:index+32]...)
					switch {
					case strings.HasPrefix(lhs, "vm.signatures[i]."):
						vm.Sigs[it][strings.TrimPrefix(lhs, "vm.signatures[i].")] = b
					case strings.HasPrefix(lhs, "vm."):
						vm.Bytes32[strings.TrimPrefix(lhs, "vm.")] = b
					default:
						return false, fmt.Errorf("bytes32 target not understood: %q", st)
					}
					continue
				}
				v, ov, err := eval(rhs)
				if err != nil {
					return false, fmt.Errorf("%v in %q", err, st)
				}
				if ov {
					return true, nil
				}
				name, bits := short(lhs)
				switch {
				case strings.HasPrefix(lhs, "vm.signatures[i]."):
					if it < 0 || it >= len(vm.Sigs) {
						return true, nil // index out of bounds of the allocated array
					}
					vm.Sigs[it][strings.TrimPrefix(lhs, "vm.signatures[i].")] = []byte{byte(v.v.Uint64())}
				case strings.HasPrefix(lhs, "vm."):
					vm.Fields[strings.TrimPrefix(lhs, "vm.")] = v.v.Uint64()
				default:
					if bits == 0 {
						if old, ok := vars[name]; ok {
							bits = old.bits
						}
					}
					if bits > 0 && v.v.BitLen() > bits {
						if unchecked == 0 && v.bits > bits {
							return false, fmt.Errorf("implicit narrowing in %q", st)
						}
						v.v = wrap(v.v, bits)
					}
					if bits == 0 {
						bits = v.bits
					}
					if name == "index" {
						index = int(v.v.Int64())
					} else {
						vars[name] = solVal{v.v, bits}
					}
				}
			default:
				return false, fmt.Errorf("parseVM statement not understood: %q", st)
			}
		}
		return false, nil
	}
	// `uint index = 0` is an ordinary typed declaration with initialiser for this interpreter
	rv, err := exec(stmts, -1)
	return vm, rv, err
}
