package csrc

import (
	"encoding/binary"
	"fmt"
	"os"
	"regexp"
	"strconv"
	"strings"
)

// SolFunctionBody returns the text between the braces of `function <name>(`.
func SolFunctionBody(path, name string) (string, error) {
	b, err := os.ReadFile(path)
	if err != nil {
		return "", err
	}
	src := stripComments(string(b))
	// drop /* */ comments
	src = regexp.MustCompile(`(?s)/\*.*?\*/`).ReplaceAllString(src, "")
	i := strings.Index(src, "function "+name+"(")
	if i < 0 {
		return "", fmt.Errorf("function %s not found in %s", name, path)
	}
	for i < len(src) && src[i] != '{' {
		i++
	}
	start := i + 1
	d := 0
	for ; i < len(src); i++ {
		if src[i] == '{' {
			d++
		} else if src[i] == '}' {
			d--
			if d == 0 {
				return src[start:i], nil
			}
		}
	}
	return "", fmt.Errorf("unbalanced braces in %s", name)
}

// SolReturnExpr extracts the expression of the single `return <expr>;` of a function.
func SolReturnExpr(path, name string) (string, error) {
	body, err := SolFunctionBody(path, name)
	if err != nil {
		return "", err
	}
	m := regexp.MustCompile(`return\s+([^;]+);`).FindAllStringSubmatch(body, -1)
	if len(m) != 1 {
		return "", fmt.Errorf("%s: expected exactly one return statement, found %d", name, len(m))
	}
	return strings.TrimSpace(m[0][1]), nil
}

// SolVM is what the interpreted parseVM produced.
type SolVM struct {
	Fields   map[string]uint64 // scalar vm.<field>
	Bytes32  map[string][]byte
	Sigs     []map[string][]byte // per signature: guardianIndex, r, s, v
	Body     []byte
	Payload  []byte
	HashBody bool // vm.hash = keccak256(abi.encodePacked(keccak256(body)))
}

var (
	reSolAssign = regexp.MustCompile(`^(vm\.[A-Za-z_\[\]\.]+|uint(?:256)?\s+[A-Za-z_]+)\s*=\s*encodedVM\.to(Uint8|Uint16|Uint32|Uint64|Bytes32)\(index\)\s*(?:\+\s*(\d+))?$`)
	reSolIndex  = regexp.MustCompile(`^index\s*\+=\s*(\d+)$`)
	reSolSlice  = regexp.MustCompile(`^(bytes memory body|vm\.payload)\s*=\s*encodedVM\.slice\(index,\s*encodedVM\.length\s*-\s*index\)$`)
	reSolFor    = regexp.MustCompile(`^for\s*\(uint i = 0; i < ([A-Za-z_]+); i\+\+\)\s*\{$`)
)

// SolParseVM interprets the straight-line parseVM script from the source on data. It returns
// revert=true when Solidity would revert (out-of-bounds read, failed require).
func SolParseVM(body string, data []byte) (vm *SolVM, revert bool, err error) {
	vm = &SolVM{Fields: map[string]uint64{}, Bytes32: map[string][]byte{}}
	var stmts []string
	for _, l := range strings.Split(body, "\n") {
		l = strings.TrimSpace(l)
		if l == "" {
			continue
		}
		l = strings.TrimSuffix(l, ";")
		stmts = append(stmts, l)
	}
	index := -1
	locals := map[string]uint64{}
	read := func(kind string) (uint64, []byte, bool) {
		n := map[string]int{"Uint8": 1, "Uint16": 2, "Uint32": 4, "Uint64": 8, "Bytes32": 32}[kind]
		if index < 0 || index+n > len(data) {
			return 0, nil, false
		}
		b := data[index : index+n]
		switch n {
		case 1:
			return uint64(b[0]), nil, true
		case 2:
			return uint64(binary.BigEndian.Uint16(b)), nil, true
		case 4:
			return uint64(binary.BigEndian.Uint32(b)), nil, true
		case 8:
			return binary.BigEndian.Uint64(b), nil, true
		}
		return 0, append([]byte{}, b...), true
	}
	var exec func(list []string, sigIdx int) (bool, error)
	exec = func(list []string, sigIdx int) (bool, error) {
		for i := 0; i < len(list); i++ {
			st := list[i]
			switch {
			case st == "uint index = 0":
				index = 0
			case reSolIndex.MatchString(st):
				k, _ := strconv.Atoi(reSolIndex.FindStringSubmatch(st)[1])
				index += k
			case reSolAssign.MatchString(st):
				m := reSolAssign.FindStringSubmatch(st)
				u, bs, ok := read(m[2])
				if !ok {
					return true, nil
				}
				if m[3] != "" {
					k, _ := strconv.Atoi(m[3])
					u += uint64(k)
				}
				target := m[1]
				switch {
				case strings.HasPrefix(target, "vm.signatures[i]."):
					f := strings.TrimPrefix(target, "vm.signatures[i].")
					if bs != nil {
						vm.Sigs[sigIdx][f] = bs
					} else {
						vm.Sigs[sigIdx][f] = []byte{byte(u)}
					}
				case strings.HasPrefix(target, "vm."):
					if bs != nil {
						vm.Bytes32[strings.TrimPrefix(target, "vm.")] = bs
					} else {
						vm.Fields[strings.TrimPrefix(target, "vm.")] = u
					}
				default:
					f := strings.Fields(target)
					locals[f[len(f)-1]] = u
				}
			case strings.HasPrefix(st, "require(vm.version == 1"):
				if vm.Fields["version"] != 1 {
					return true, nil
				}
			case strings.HasPrefix(st, "vm.signatures = new Structs.Signature[]("):
				n := locals[strings.TrimSuffix(strings.TrimPrefix(st, "vm.signatures = new Structs.Signature[]("), ")")]
				vm.Sigs = make([]map[string][]byte, n)
				for k := range vm.Sigs {
					vm.Sigs[k] = map[string][]byte{}
				}
			case reSolFor.MatchString(st):
				bound := locals[reSolFor.FindStringSubmatch(st)[1]]
				j := i + 1
				d := 1
				for ; j < len(list); j++ {
					if strings.HasSuffix(list[j], "{") {
						d++
					}
					if list[j] == "}" {
						d--
						if d == 0 {
							break
						}
					}
				}
				if j >= len(list) {
					return false, fmt.Errorf("unterminated for loop")
				}
				inner := list[i+1 : j]
				for k := uint64(0); k < bound; k++ {
					if rv, err := exec(inner, int(k)); rv || err != nil {
						return rv, err
					}
				}
				i = j
			case reSolSlice.MatchString(st):
				if index < 0 || index > len(data) {
					return true, nil
				}
				if strings.HasPrefix(st, "bytes memory body") {
					vm.Body = append([]byte{}, data[index:]...)
				} else {
					vm.Payload = append([]byte{}, data[index:]...)
				}
			case st == "vm.hash = keccak256(abi.encodePacked(keccak256(body)))":
				vm.HashBody = true
			default:
				return false, fmt.Errorf("parseVM statement not understood: %q", st)
			}
		}
		return false, nil
	}
	rv, err := exec(stmts, -1)
	return vm, rv, err
}
