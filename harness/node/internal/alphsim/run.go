package alphsim

import (
	"bytes"
	"context"
	"encoding/hex"
	"fmt"
	"os"
	"sync"
	"sync/atomic"
	"time"

	"github.com/alephium/wormhole-fork/node/pkg/alephium"
	"github.com/alephium/wormhole-fork/node/pkg/common"
	gossipv1 "github.com/alephium/wormhole-fork/node/pkg/proto/gossip/v1"
	"github.com/alephium/wormhole-fork/node/pkg/supervisor"
	"github.com/alephium/wormhole-fork/node/pkg/vaa"
	"go.uber.org/zap"
)

type Arrival struct {
	Msg     *common.MessagePublication
	Version int
	LogN    int
	Path    string // poll | reobserve
	ReobsN  int    // re-observation requests issued so far for this tx
	AtMs    int64  // wall clock when the harness received it (never earlier than the watcher's decision)
}

type Harness struct {
	Sim      *Sim
	TB       [32]byte
	CoreID   string
	Mainnet  bool
	NowMs    int64
	ObsvReqC chan *gossipv1.ObservationRequest
	msgC     chan *common.MessagePublication

	mu       sync.Mutex
	Arrivals []Arrival
	inReobs  atomic.Bool
	reobsTx  map[string]int
	cancel   context.CancelFunc
	RunExits int32
	W        *alephium.Watcher
}

// Start runs the real watcher (under the real supervisor) against sim.
func Start(sim *Sim, coreIdHex string, tb [32]byte, mainnet bool, pollMs uint) (*Harness, error) {
	h := &Harness{Sim: sim, TB: tb, CoreID: coreIdHex, Mainnet: mainnet, NowMs: time.Now().UnixMilli(), ObsvReqC: make(chan *gossipv1.ObservationRequest),
		msgC: make(chan *common.MessagePublication), reobsTx: map[string]int{}}
	cfg := &common.ChainConfig{GroupIndex: 0, NodeUrl: sim.URL()}
	cfg.Contracts.Governance = coreIdHex
	cfg.Contracts.TokenBridge = hex.EncodeToString(tb[:])
	w, err := alephium.NewAlephiumWatcher(sim.URL(), "", cfg, "alephium-verif", h.msgC, pollMs, h.ObsvReqC, mainnet)
	if err != nil {
		return nil, err
	}
	h.W = w
	ctx, cancel := context.WithCancel(context.Background())
	h.cancel = cancel
	go func() {
		for {
			select {
			case <-ctx.Done():
				return
			case m := <-h.msgC:
				reobs := h.inReobs.Load() // read first, see evmsim
				v, n := sim.Snapshot()
				h.mu.Lock()
				path := "poll"
				if reobs {
					path = "reobserve"
				}
				h.Arrivals = append(h.Arrivals, Arrival{Msg: m, Version: v, LogN: n, Path: path, ReobsN: h.reobsTx[hex.EncodeToString(m.TxHash[:])], AtMs: time.Now().UnixMilli()})
				h.mu.Unlock()
			}
		}
	}()
	logger := zap.NewNop()
	if os.Getenv("VERIF_DEBUG") != "" {
		logger, _ = zap.NewDevelopment()
	}
	supervisor.New(ctx, logger, func(ctx context.Context) error {
		if err := supervisor.Run(ctx, "alphwatch", func(ctx context.Context) error {
			err := w.Run(ctx)
			atomic.AddInt32(&h.RunExits, 1)
			return err
		}); err != nil {
			return err
		}
		supervisor.Signal(ctx, supervisor.SignalHealthy)
		<-ctx.Done()
		return nil
	})
	return h, nil
}

func (h *Harness) Stop() {
	h.cancel()
	h.Sim.Close()
}

// WaitRounds waits until the event poller has completed n more rounds (count requests) and, if
// the height poller is active, n more height requests. false = watchdog fired.
func (h *Harness) WaitRounds(n int, wd time.Duration) bool {
	c0, h0 := h.Sim.CountKind("count"), h.Sim.CountKind("height")
	deadline := time.Now().Add(wd)
	for time.Now().Before(deadline) {
		if h.Sim.CountKind("count") >= c0+n {
			break
		}
		time.Sleep(300 * time.Microsecond)
	}
	if h.Sim.CountKind("count") < c0+n {
		return false
	}
	// the height poller was active: n height rounds, or the watcher holds nothing any more (its
	// height poller has stayed switched off over 3 further complete event-poll rounds; a fetched
	// batch is handed over before the next count request, so nothing can be in flight then)
	cAtLastOn := h.Sim.CountKind("count")
	arr, lastArr := h.arrivalCount(), time.Now()
	for time.Now().Before(deadline) {
		hh, cc, aa := h.Sim.CountKind("height"), h.Sim.CountKind("count"), h.arrivalCount()
		if aa != arr { // the watcher is still handing over confirmed messages
			arr, cAtLastOn, lastArr = aa, cc, time.Now()
			h0 = hh
		}
		// (the extra 150 ms without an arrival only ever lengthens the wait: the watcher switches its
		// height poller off before it hands the confirmed batch over, message by message)
		stable := time.Since(lastArr) > 150*time.Millisecond
		if hh >= h0+n && stable {
			return true
		}
		if h.W.VerifBlockPollerEnabled() {
			cAtLastOn = cc
		} else if cc >= cAtLastOn+3 && stable {
			return true
		}
		time.Sleep(200 * time.Microsecond)
	}
	return false
}

// Reobserve sends a re-observation request for tx and returns once the watcher has fully handled it.
func (h *Harness) Reobserve(txId string, wd time.Duration) bool {
	b, _ := hex.DecodeString(txId)
	h.mu.Lock()
	h.reobsTx[txId]++
	h.mu.Unlock()
	h.inReobs.Store(true)
	defer func() { time.Sleep(5 * time.Millisecond); h.inReobs.Store(false) }()
	send := func(r *gossipv1.ObservationRequest) bool {
		select {
		case h.ObsvReqC <- r:
			return true
		case <-time.After(wd):
			return false
		}
	}
	if !send(&gossipv1.ObservationRequest{ChainId: uint32(vaa.ChainIDAlephium), TxHash: b}) {
		return false
	}
	// sentinel: taken only after the previous request has been handled completely
	return send(&gossipv1.ObservationRequest{ChainId: 1, TxHash: b})
}

func (h *Harness) ArrivalsCopy() []Arrival {
	h.mu.Lock()
	out := append([]Arrival{}, h.Arrivals...)
	h.mu.Unlock()
	// path: the re-observation handler is the only caller of /events/tx-id; if that endpoint was
	// queried for the message's transaction shortly before it arrived, the message came from it
	log := h.Sim.LogCopy()
	for i := range out {
		tx := hex.EncodeToString(out[i].Msg.TxHash[:])
		for j := out[i].LogN - 1; j >= 0 && j >= out[i].LogN-60 && j < len(log); j-- {
			if log[j].Kind == "tx-events" && log[j].Detail == tx {
				out[i].Path = "reobserve"
			}
		}
	}
	return out
}

func (h *Harness) arrivalCount() int {
	h.mu.Lock()
	defer h.mu.Unlock()
	return len(h.Arrivals)
}

// AllEvents lists every event entry of the ground truth.
func (h *Harness) AllEvents() []*Ev {
	var out []*Ev
	seen := map[int]bool{}
	h.Sim.WithLock(func() {
		for _, l := range h.Sim.TxEvents {
			for _, e := range l {
				if !seen[e.ID] {
					seen[e.ID] = true
					out = append(out, e)
				}
			}
		}
	})
	return out
}

// Match finds the ground-truth entry a delivered message was made from.
func Match(m *common.MessagePublication, evs []*Ev) *Ev {
	for _, e := range evs {
		if e.Intent == nil {
			continue
		}
		in := e.Intent
		if hex.EncodeToString(m.TxHash[:]) == e.TxId && m.Sequence == in.Seq && m.Timestamp.UnixMilli() == e.Block.TsMs && bytes.Equal(m.Payload, in.Payload) &&
			[32]byte(m.EmitterAddress) == in.Sender && uint16(m.TargetChain) == in.Target && m.Nonce == in.Nonce && m.ConsistencyLevel == in.CL && m.EmitterChain == vaa.ChainIDAlephium {
			return e
		}
	}
	return nil
}

// Finding is one oracle failure.
type Finding struct {
	Class   string
	Witness map[string]interface{}
}

// TimeFloorOK: static by construction where block timestamps are placed far from the threshold.
func (h *Harness) TimeFloorOK(e *Ev) bool { return h.TimeFloorOKAt(e, h.NowMs) }

// TimeFloorOKAt judges the wall-clock floor against the moment the message was received by the harness. The watcher
// decided no later than that, so a message decided after the floor always passes; one decided before the floor is
// caught unless the hand-over itself took longer than what was missing (blocks are placed >= 2 s before their floor).
func (h *Harness) TimeFloorOKAt(e *Ev, atMs int64) bool {
	if !h.Mainnet || len(e.Intent.Payload) == 0 || e.Intent.Payload[0] != 1 {
		return true
	}
	cl := int64(e.Intent.CL)
	if cl < 205 {
		cl = 205
	}
	return e.Block.TsMs+cl*16000 <= atMs
}

// AttestOK: the attested metadata equals what the token contract reports.
func (h *Harness) AttestOK(e *Ev) bool { return h.AttestOKAt(e, 1<<30) }

// AttestOKAt: the same against the token contract as it was in state version v.
func (h *Harness) AttestOKAt(e *Ev, v int) bool {
	p := e.Intent.Payload
	if len(p) == 0 || p[0] != 2 {
		return true
	}
	if len(p) != 100 {
		return false
	}
	id := hex.EncodeToString(p[1:33])
	var t *Token
	h.Sim.WithLock(func() { t = h.Sim.TokenAt(id, v) })
	if id == hex.EncodeToString(make([]byte, 32)) {
		return int(p[35]) == 18 && trimZ(p[36:68]) == "ALPH" && trimZ(p[68:100]) == "Alephium" && p[33] == 0 && p[34] == 255
	}
	if t == nil || t.Mode != "ok" {
		return false
	}
	return p[33] == 0 && p[34] == 255 && int(p[35]) == t.Decimals && trimZ(p[36:68]) == t.Symbol && trimZ(p[68:100]) == t.Name
}

func trimZ(b []byte) string { return string(bytes.Trim(b, "\x00")) }

// JudgeSafety applies the C08 oracle to every arrival.
func (h *Harness) JudgeSafety(desc interface{}) []Finding {
	var out []Finding
	evs := h.AllEvents()
	count := map[int]int{}
	for _, a := range h.ArrivalsCopy() {
		w := map[string]interface{}{"script": desc, "path": a.Path, "message": fmt.Sprintf("tx=%x seq=%d target=%d cl=%d payload[0..1]=%x ts=%d", a.Msg.TxHash[:4], a.Msg.Sequence, a.Msg.TargetChain, a.Msg.ConsistencyLevel, head(a.Msg.Payload, 1), a.Msg.Timestamp.UnixMilli()),
			"arrived_in_version": a.Version, "mainnet": h.Mainnet}
		e := Match(a.Msg, evs)
		if e == nil {
			out = append(out, Finding{a.Path + ":delivered-message-matches-no-emitted-event", w})
			continue
		}
		w["event"] = fmt.Sprintf("entry#%d contract=%s block=%s(height %d, main now=%v) note=%s", e.ID, short(e.Contract), short(e.Block.Hash), e.Block.Height, e.Block.Main, e.Note)
		count[e.ID]++
		if count[e.ID] > 1+a.ReobsN {
			out = append(out, Finding{a.Path + ":event-forwarded-more-than-once", w})
		}
		fail := ""
		for _, v := range []int{a.Version, a.Version - 1} {
			f := ""
			var main bool
			var height int32
			h.Sim.WithLock(func() { main, height = h.Sim.MainAt(e.Block.Hash, v), h.Sim.HeightAt(v) })
			switch {
			case e.Contract != h.Sim.Core:
				f = "event-of-foreign-contract-forwarded"
			case e.Intent.Sender != h.TB:
				f = "foreign-sender-forwarded"
			case !main:
				f = "orphaned-block-event-forwarded"
			case height < e.Block.Height+int32(e.Intent.CL):
				f = "forwarded-before-consistency-level-reached"
			case !h.AttestOKAt(e, v):
				f = "mismatching-attestation-forwarded"
			case !h.TimeFloorOKAt(e, maxI64(a.AtMs, h.NowMs)):
				f = "mainnet-transfer-forwarded-before-time-floor"
			}
			if f == "" {
				fail = ""
				break
			}
			if fail == "" {
				fail = f
			}
		}
		if fail != "" {
			h.Sim.WithLock(func() { w["height_at_arrival"] = h.Sim.HeightAt(a.Version) })
			w["block_height"] = e.Block.Height
			out = append(out, Finding{a.Path + ":" + fail, w})
		}
	}
	return out
}

func head(b []byte, n int) []byte {
	if len(b) > n {
		return b[:n]
	}
	return b
}

func short(s string) string {
	if len(s) > 10 {
		return s[:4] + ".." + s[len(s)-4:]
	}
	return s
}

func maxI64(a, b int64) int64 {
	if a > b {
		return a
	}
	return b
}
