package alphsim

import (
	"strings"
	"encoding/hex"
	"fmt"
	"math/rand"
	"time"

	"github.com/alephium/wormhole-fork/node/pkg/alephium"
)

// World bundles one simulated chain with the running watcher and the bookkeeping scripts need.
type World struct {
	H        *Harness
	Sim      *Sim
	Rng      *rand.Rand
	CoreAddr string
	Other    string // address of an unrelated contract
	TB       [32]byte
	Tokens   []string // token id hex, registered with Mode ok
	BadToks  []string // token ids whose metadata calls misbehave
	LongToks []string // well-behaved token contracts whose name and/or symbol is longer than the 32 bytes an attestation can carry
	NextSeq  uint64
	nBlock   int
	Blocks   []*Block
	TxOf     map[string][]*Ev // tx -> core events (latest entries)
	Txs      []string
	Trace    []string
	Step     func(string)
}

func randHex(rng *rand.Rand, n int) string {
	b := make([]byte, n)
	rng.Read(b)
	return hex.EncodeToString(b)
}

func addrOf(idHex string) string {
	a, _ := alephium.ToContractAddress(idHex)
	return *a
}

// NewWorld creates the chain, registers tokens and starts the watcher.
func NewWorld(rng *rand.Rand, pageLimit int, mainnet bool, pollMs uint, step func(string)) (*World, error) {
	coreID := randHex(rng, 32)
	w := &World{Rng: rng, CoreAddr: addrOf(coreID), Other: addrOf(randHex(rng, 32)), TxOf: map[string][]*Ev{}, Step: step, NextSeq: uint64(rng.Intn(1000))}
	rng.Read(w.TB[:])
	w.Sim = New(w.CoreAddr, pageLimit)
	w.Sim.Mutate("genesis", func(s *Sim) {
		s.SetHeight(1000)
		for i := 0; i < 3; i++ {
			id := randHex(rng, 32)
			s.Tokens[id] = &Token{Symbol: fmt.Sprintf("TK%d", i), Name: fmt.Sprintf("Token %d", i), Decimals: []int{0, 8, 18}[i], Mode: "ok"}
			w.Tokens = append(w.Tokens, id)
			tokMu.Lock()
			TokenByAddress[addrOf(id)] = id
			tokMu.Unlock()
		}
		for _, sp := range [][2]string{{"USDT", "Tether USD"}, {"AB\x00CD", "Zero\x00Inside"}, {"\xc3\x28X", "Not\xffUTF8"}} {
			// metadata is bytes: a zero byte or invalid UTF-8 in the middle is part of the value
			id := randHex(rng, 32)
			s.Tokens[id] = &Token{Symbol: sp[0], Name: sp[1], Decimals: 6, Mode: "ok"}
			w.Tokens = append(w.Tokens, id)
			tokMu.Lock()
			TokenByAddress[addrOf(id)] = id
			tokMu.Unlock()
		}
		for i := 0; i < 3; i++ {
			id := randHex(rng, 32)
			name, sym := fmt.Sprintf("A token whose name does not fit into an attestation %d", i), fmt.Sprintf("LNG%d", i)
			if i == 1 {
				sym = "SYMBOL-THAT-IS-LONGER-THAN-THIRTY-TWO-BYTES"
			}
			if i == 2 {
				name = "Short name"
				sym = "SYMBOL-THAT-IS-LONGER-THAN-THIRTY-TWO-BYTES-2"
			}
			s.Tokens[id] = &Token{Symbol: sym, Name: name, Decimals: 8, Mode: "ok"}
			w.LongToks = append(w.LongToks, id)
			tokMu.Lock()
			TokenByAddress[addrOf(id)] = id
			tokMu.Unlock()
		}
		for _, mode := range []string{"http500", "two-results", "m1-failed", "m2-failed", "wrong-types", "long", "all-failed", "m0-no-return", "m1-no-return", "m2-no-return", "m0-two-returns", "decimals-256", "decimals-2^64"} {
			id := randHex(rng, 32)
			s.Tokens[id] = &Token{Symbol: "BAD", Name: "Bad token", Decimals: 8, Mode: mode}
			if mode == "decimals-256" {
				s.Tokens[id].Decimals = 256 // does not fit the one byte an attestation has; an attestation naming this token says 0
			}
			w.BadToks = append(w.BadToks, id)
			tokMu.Lock()
			TokenByAddress[addrOf(id)] = id
			tokMu.Unlock()
		}
		// some history before the watcher starts
		b := s.AddBlock(randHex(rng, 32), 990, time.Now().UnixMilli()-9e9, true)
		for i := 0; i < rng.Intn(4); i++ {
			in := w.Intent("transfer", 1)
			s.Emit(s.Core, b, randHex(rng, 32), 0, FieldsOf(in), in, "pre-start")
		}
	})
	h, err := Start(w.Sim, coreID, w.TB, mainnet, pollMs)
	if err != nil {
		return nil, err
	}
	w.H = h
	return w, nil
}

func pad32(s string) []byte {
	b := make([]byte, 32)
	copy(b, s)
	return b
}

// intent builds a message of the given kind.
func (w *World) Intent(kind string, cl uint8) *Intent {
	in := &Intent{Sender: w.TB, Target: uint16(w.Rng.Intn(30)), Seq: w.NextSeq, Nonce: w.Rng.Uint32(), CL: cl}
	w.NextSeq++
	switch kind {
	case "transfer":
		in.Payload = make([]byte, 133)
		w.Rng.Read(in.Payload)
		in.Payload[0] = 1
	case "attest", "attest-mismatch", "attest-bad-token", "attest-long-name":
		id := w.Tokens[w.Rng.Intn(len(w.Tokens))]
		if kind == "attest-bad-token" {
			id = w.BadToks[w.Rng.Intn(len(w.BadToks))]
		}
		if kind == "attest-long-name" {
			// the contract reports more than 32 bytes; the attestation carries the 32-byte cut, a shorter prefix or nothing:
			// in no case what the token contract itself reports
			id = w.LongToks[w.Rng.Intn(len(w.LongToks))]
		}
		var t *Token
		t = w.Sim.Tokens[id]
		idb, _ := hex.DecodeString(id)
		p := []byte{2}
		p = append(p, idb...)
		p = append(p, 0, 255, byte(t.Decimals))
		p = append(p, pad32(t.Symbol)...)
		p = append(p, pad32(t.Name)...)
		if kind == "attest-long-name" {
			cut := func(v string) []byte {
				if len(v) <= 32 {
					return pad32(v)
				}
				switch w.Rng.Intn(3) {
				case 0:
					return pad32(v[:32])
				case 1:
					return pad32(v[:1+w.Rng.Intn(31)])
				}
				return pad32("")
			}
			p = p[:36]
			p = append(p, cut(t.Symbol)...)
			p = append(p, cut(t.Name)...)
		}
		if kind == "attest-mismatch" {
			switch w.Rng.Intn(5) {
			case 0:
				p[35] ^= 1
			case 1:
				p[36] ^= 0x20
			case 2:
				p[68+w.Rng.Intn(4)] ^= 0x01
			case 3: // differs from the contract's symbol only by a byte that is not valid UTF-8
				if len(t.Symbol) >= 2 && len(t.Symbol) < 32 {
					copy(p[36:68], pad32(t.Symbol[:1]+"\xff"+t.Symbol[1:]))
				} else {
					p[36] ^= 0x20
				}
			default: // differs only behind a zero byte inside the value (or in the last byte)
				if i := strings.IndexByte(t.Symbol, 0); i >= 0 && i+1 < len(t.Symbol) {
					p[36+len(t.Symbol)-1] ^= 0x11
				} else if len(t.Name) > 0 {
					p[68+len(t.Name)-1] ^= 0x11
				} else {
					p[35] ^= 1
				}
			}
		}
		in.Payload = p
	case "attest-alph", "attest-alph-forged":
		// the native token has the all-zero id and no contract behind it: its metadata is fixed (18, "ALPH", "Alephium")
		p := []byte{2}
		p = append(p, make([]byte, 32)...)
		p = append(p, 0, 255, 18)
		p = append(p, pad32("ALPH")...)
		p = append(p, pad32("Alephium")...)
		if kind == "attest-alph-forged" {
			switch w.Rng.Intn(3) {
			case 0:
				p[35] = 6
			case 1:
				copy(p[36:68], pad32("WETH"))
			default:
				copy(p[68:100], pad32("Wrapped Ether"))
			}
		}
		in.Payload = p
	case "foreign-sender":
		w.Rng.Read(in.Sender[:])
		in.Payload = make([]byte, 133)
		w.Rng.Read(in.Payload)
		in.Payload[0] = 1
	case "other":
		in.Payload = make([]byte, 1+w.Rng.Intn(60))
		w.Rng.Read(in.Payload)
		in.Payload[0] = 3 + byte(w.Rng.Intn(200))
	}
	return in
}

// NewBlock adds a main-chain block on top of the current height. fresh=true gives it a recent timestamp.
func (w *World) NewBlock(s *Sim, fresh bool) *Block {
	w.nBlock++
	ts := w.H.NowMs - 8640000000 - int64(w.nBlock)*1000 // ~100 days old
	if fresh {
		ts = w.H.NowMs - 60000 - int64(w.nBlock)
	}
	b := s.AddBlock(randHex(w.Rng, 32), s.Height+1, ts, true)
	s.SetHeight(s.Height + 1)
	w.Blocks = append(w.Blocks, b)
	return b
}

// EmitTx emits one transaction with a core event of the given kind and, optionally, a look-alike
// event of another contract in the same transaction.
func (w *World) EmitTx(s *Sim, b *Block, kind string, cl uint8, lookalike bool) (string, *Ev) {
	tx := randHex(w.Rng, 32)
	in := w.Intent(kind, cl)
	e := s.Emit(s.Core, b, tx, 0, FieldsOf(in), in, kind)
	s.TxBlock[tx] = b.Hash
	w.TxOf[tx] = []*Ev{e}
	w.Txs = append(w.Txs, tx)
	if lookalike {
		li := w.Intent("transfer", 0)
		emitLook := func() { s.Emit(w.Other, b, tx, 0, FieldsOf(li), li, "lookalike-of-other-contract") }
		emitOther := func() { s.Emit(w.Other, b, tx, 1, []map[string]interface{}{U256("1")}, nil, "other-contract-index-1") }
		// the transaction's event list ends with the look-alike or with an unrelated event
		if w.Rng.Intn(2) == 0 {
			emitLook()
			emitOther()
		} else {
			emitOther()
			emitLook()
		}
	}
	return tx, e
}

// EmitTx2 emits one transaction with TWO core events of different consistency levels (the second
// one becomes final later than the first).
func (w *World) EmitTx2(s *Sim, b *Block, cl1, cl2 uint8) string {
	tx := randHex(w.Rng, 32)
	in1 := w.Intent("transfer", cl1)
	in2 := w.Intent("transfer", cl2)
	e1 := s.Emit(s.Core, b, tx, 0, FieldsOf(in1), in1, "transfer(first of two in one tx)")
	e2 := s.Emit(s.Core, b, tx, 0, FieldsOf(in2), in2, "transfer(second of two in one tx)")
	s.TxBlock[tx] = b.Hash
	w.TxOf[tx] = []*Ev{e1, e2}
	w.Txs = append(w.Txs, tx)
	return tx
}

func (w *World) Tr(s string) {
	w.Trace = append(w.Trace, s)
	if w.Step != nil {
		w.Step(s)
	}
}

// ReserveToken returns a fresh token id whose contract does not exist yet: metadata calls for it fail until
// CreateToken is called.
func (w *World) ReserveToken() string {
	id := randHex(w.Rng, 32)
	tokMu.Lock()
	TokenByAddress[addrOf(id)] = id
	tokMu.Unlock()
	return id
}

// CreateToken deploys (or re-deploys with new metadata) the token contract behind id. Call inside Mutate.
func (w *World) CreateToken(s *Sim, id, symbol, name string, decimals int) {
	s.SetToken(id, &Token{Symbol: symbol, Name: name, Decimals: decimals, Mode: "ok"})
}

// AttestFor builds a token-bridge attestation of token id carrying the given metadata.
func (w *World) AttestFor(id, symbol, name string, decimals int, cl uint8) *Intent {
	in := &Intent{Sender: w.TB, Target: 0, Seq: w.NextSeq, Nonce: w.Rng.Uint32(), CL: cl}
	w.NextSeq++
	idb, _ := hex.DecodeString(id)
	p := []byte{2}
	p = append(p, idb...)
	p = append(p, 0, 255, byte(decimals))
	p = append(p, pad32(symbol)...)
	p = append(p, pad32(name)...)
	in.Payload = p
	return in
}

// NewBlockAt adds a main-chain block on top of the current height with the given timestamp (ms).
func (w *World) NewBlockAt(s *Sim, tsMs int64) *Block {
	w.nBlock++
	b := s.AddBlock(randHex(w.Rng, 32), s.Height+1, tsMs, true)
	s.SetHeight(s.Height + 1)
	w.Blocks = append(w.Blocks, b)
	return b
}
