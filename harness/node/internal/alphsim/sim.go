// Package alphsim simulates the REST API of an Alephium full node over a ground-truth chain
// model, and runs the real alephium.Watcher against it. Every response is logged together with
// the version of the ground truth it was answered from.
package alphsim

import (
	"encoding/hex"
	"encoding/json"
	"fmt"
	"net/http"
	"net/http/httptest"
	"strconv"
	"strings"
	"sync"
	"time"
)

type Block struct {
	Hash   string
	Height int32
	TsMs   int64
	Main   bool
}

// Intent is what a well-formed event means.
type Intent struct {
	Sender  [32]byte
	Target  uint16
	Seq     uint64
	Nonce   uint32
	Payload []byte
	CL      uint8
}

type Ev struct {
	ID       int    // unique id of this log entry
	LogIdx   int    // index in the core contract's log, -1 when emitted by another contract
	Contract string // address of the emitting contract
	Block    *Block
	TxId     string
	EvIndex  int32
	Fields   []map[string]interface{}
	Intent   *Intent // nil for malformed events
	Note     string
	BornV    int // version in which it appeared
}

type Token struct {
	Symbol, Name string
	Decimals     int
	Mode         string // ok | http500 | two-results | m1-failed | m2-failed | wrong-types | long | all-failed | m{0,1,2}-no-return | m0-two-returns
}

type LogEntry struct {
	N       int
	Version int
	Kind    string
	Detail  string
	Status  int
}

type Sim struct {
	mu        sync.Mutex
	Core      string // address of the configured core (governance) contract
	Version   int
	Height    int32
	Blocks    map[string]*Block
	tokHist   map[string][]verTok
	slowMu    sync.Mutex
	slow      map[string][]time.Duration
	CoreLog   []*Ev
	TxEvents  map[string][]*Ev
	TxBlock   map[string]string // tx -> block hash the node reports as confirmed ("" = not found)
	Tokens    map[string]*Token // token id hex -> metadata
	PageLimit int
	Log       []LogEntry
	nextEvID  int
	// history of per-version predicates
	mainHist   map[string][]verBool
	heightHist []verInt
	// faults: kind -> set of call ordinals (1-based, per kind) that fail; mode "500" or "garbage"
	Faults    map[string]map[int]string
	kindCount map[string]int
	// OnRequest runs under the lock before a request of the given kind is answered.
	OnRequest func(s *Sim, kind string, ordinal int, detail string)
	srv       *httptest.Server
}

type verBool struct {
	v int
	b bool
}
type verInt struct {
	v int
	h int32
}

func New(core string, pageLimit int) *Sim {
	s := &Sim{Core: core, PageLimit: pageLimit, Blocks: map[string]*Block{}, TxEvents: map[string][]*Ev{}, TxBlock: map[string]string{}, Tokens: map[string]*Token{},
		mainHist: map[string][]verBool{}, Faults: map[string]map[int]string{}, kindCount: map[string]int{}}
	s.heightHist = []verInt{{0, 0}}
	s.srv = httptest.NewServer(http.HandlerFunc(s.handle))
	return s
}

func (s *Sim) URL() string { return s.srv.URL }
func (s *Sim) Close()      { s.srv.Close() }

// Mutate applies f to the ground truth as one new version.
func (s *Sim) Mutate(what string, f func(s *Sim)) {
	s.mu.Lock()
	defer s.mu.Unlock()
	s.mutateLocked(what, f)
}

func (s *Sim) mutateLocked(what string, f func(s *Sim)) {
	s.Version++
	f(s)
	s.Log = append(s.Log, LogEntry{N: len(s.Log), Version: s.Version, Kind: "MUTATION", Detail: what})
}

// The following helpers must be called inside Mutate / OnRequest.

func (s *Sim) AddBlock(hash string, height int32, tsMs int64, main bool) *Block {
	b := &Block{Hash: hash, Height: height, TsMs: tsMs, Main: main}
	s.Blocks[hash] = b
	s.mainHist[hash] = append(s.mainHist[hash], verBool{s.Version, main})
	return b
}

func (s *Sim) SetMain(hash string, main bool) {
	s.Blocks[hash].Main = main
	s.mainHist[hash] = append(s.mainHist[hash], verBool{s.Version, main})
}

func (s *Sim) SetHeight(h int32) {
	s.Height = h
	s.heightHist = append(s.heightHist, verInt{s.Version, h})
}

// Emit records an event. contract == s.Core appends to the core contract's log.
func (s *Sim) Emit(contract string, b *Block, txId string, evIndex int32, fields []map[string]interface{}, in *Intent, note string) *Ev {
	e := &Ev{ID: s.nextEvID, LogIdx: -1, Contract: contract, Block: b, TxId: txId, EvIndex: evIndex, Fields: fields, Intent: in, Note: note, BornV: s.Version}
	s.nextEvID++
	if contract == s.Core {
		e.LogIdx = len(s.CoreLog)
		s.CoreLog = append(s.CoreLog, e)
	}
	s.TxEvents[txId] = append(s.TxEvents[txId], e)
	return e
}

// MainAt / HeightAt answer "what was true in version v".
func (s *Sim) MainAt(hash string, v int) bool {
	r := false
	for _, x := range s.mainHist[hash] {
		if x.v <= v {
			r = x.b
		}
	}
	return r
}
type verTok struct {
	v int
	t *Token
}

// SetToken installs (a new version of) the token contract behind id. Call inside Mutate.
func (s *Sim) SetToken(id string, t *Token) {
	if s.tokHist == nil {
		s.tokHist = map[string][]verTok{}
	}
	if old, ok := s.Tokens[id]; ok && len(s.tokHist[id]) == 0 {
		s.tokHist[id] = append(s.tokHist[id], verTok{0, old})
	}
	s.Tokens[id] = t
	s.tokHist[id] = append(s.tokHist[id], verTok{s.Version, t})
}

// TokenAt returns the token contract behind id as of state version v (nil: no contract then).
func (s *Sim) TokenAt(id string, v int) *Token {
	h, ok := s.tokHist[id]
	if !ok {
		return s.Tokens[id]
	}
	var r *Token
	for _, x := range h {
		if x.v <= v {
			r = x.t
		}
	}
	return r
}

func (s *Sim) HeightAt(v int) int32 {
	var r int32
	for _, x := range s.heightHist {
		if x.v <= v {
			r = x.h
		}
	}
	return r
}

func (s *Sim) Snapshot() (version int, logLen int) {
	s.mu.Lock()
	defer s.mu.Unlock()
	return s.Version, len(s.Log)
}

// CountKind returns how many requests of a kind were answered so far.
func (s *Sim) CountKind(kind string) int {
	s.mu.Lock()
	defer s.mu.Unlock()
	return s.kindCount[kind]
}

func (s *Sim) LogCopy() []LogEntry {
	s.mu.Lock()
	defer s.mu.Unlock()
	return append([]LogEntry{}, s.Log...)
}

func (s *Sim) WithLock(f func()) {
	s.mu.Lock()
	defer s.mu.Unlock()
	f()
}

// ---------------------------------------------------------------- field builders

func U256(v string) map[string]interface{} { return map[string]interface{}{"type": "U256", "value": v} }
func ByteVec(b []byte) map[string]interface{} {
	return map[string]interface{}{"type": "ByteVec", "value": hex.EncodeToString(b)}
}
func Raw(tpe string, v interface{}) map[string]interface{} {
	return map[string]interface{}{"type": tpe, "value": v}
}

func FieldsOf(in *Intent) []map[string]interface{} {
	n := []byte{byte(in.Nonce >> 24), byte(in.Nonce >> 16), byte(in.Nonce >> 8), byte(in.Nonce)}
	return []map[string]interface{}{ByteVec(in.Sender[:]), U256(fmt.Sprint(in.Target)), U256(fmt.Sprint(in.Seq)), ByteVec(n), ByteVec(in.Payload), U256(fmt.Sprint(in.CL))}
}

// ---------------------------------------------------------------- HTTP

// SlowNext makes the next n requests of a kind arrive late: the handler sleeps d BEFORE it looks at the simulator's
// state, so the answer is as fresh as any other (a slow network path, not a stale node).
func (s *Sim) SlowNext(kind string, n int, d time.Duration) {
	s.slowMu.Lock()
	if s.slow == nil {
		s.slow = map[string][]time.Duration{}
	}
	for i := 0; i < n; i++ {
		s.slow[kind] = append(s.slow[kind], d)
	}
	s.slowMu.Unlock()
}

func kindOfPath(p string) string {
	switch {
	case strings.HasPrefix(p, "/events/contract/") && strings.HasSuffix(p, "/current-count"):
		return "count"
	case strings.HasPrefix(p, "/events/contract/"):
		return "page"
	case strings.HasPrefix(p, "/events/tx-id/"):
		return "tx-events"
	case p == "/blockflow/chain-info":
		return "height"
	case strings.HasPrefix(p, "/blockflow/headers/"):
		return "header"
	case p == "/blockflow/is-block-in-main-chain":
		return "main-chain"
	case p == "/transactions/status":
		return "tx-status"
	case p == "/contracts/multicall-contract":
		return "multicall"
	}
	return "other"
}

func (s *Sim) handle(w http.ResponseWriter, r *http.Request) {
	k := kindOfPath(r.URL.Path)
	s.slowMu.Lock()
	var d time.Duration
	if q := s.slow[k]; len(q) > 0 {
		d, s.slow[k] = q[0], q[1:]
	}
	s.slowMu.Unlock()
	if d > 0 {
		time.Sleep(d)
	}
	s.mu.Lock()
	defer s.mu.Unlock()
	p := r.URL.Path
	q := r.URL.Query()
	kind, detail := "other", p
	switch {
	case p == "/infos/version":
		kind = "version"
	case p == "/infos/self-clique":
		kind = "self-clique"
	case strings.HasPrefix(p, "/events/contract/") && strings.HasSuffix(p, "/current-count"):
		kind = "count"
	case strings.HasPrefix(p, "/events/contract/"):
		kind, detail = "page", "start="+q.Get("start")
	case strings.HasPrefix(p, "/events/tx-id/"):
		kind, detail = "tx-events", strings.TrimPrefix(p, "/events/tx-id/")
	case p == "/blockflow/chain-info":
		kind = "height"
	case strings.HasPrefix(p, "/blockflow/headers/"):
		kind, detail = "header", strings.TrimPrefix(p, "/blockflow/headers/")
	case p == "/blockflow/is-block-in-main-chain":
		kind, detail = "main-chain", q.Get("blockHash")
	case p == "/transactions/status":
		kind, detail = "tx-status", q.Get("txId")
	case p == "/contracts/multicall-contract":
		kind = "multicall"
	}
	s.kindCount[kind]++
	ord := s.kindCount[kind]
	if s.OnRequest != nil {
		s.OnRequest(s, kind, ord, detail)
	}
	status := 200
	var body interface{}
	if mode, ok := s.Faults[kind][ord]; ok {
		switch mode {
		case "garbage":
			s.Log = append(s.Log, LogEntry{len(s.Log), s.Version, kind, detail + " -> garbage", 200})
			w.Header().Set("Content-Type", "application/json")
			_, _ = w.Write([]byte("{not json"))
			return
		default:
			s.Log = append(s.Log, LogEntry{len(s.Log), s.Version, kind, detail + " -> 500", 500})
			w.Header().Set("Content-Type", "application/json")
			w.WriteHeader(500)
			_, _ = w.Write([]byte(`{"detail":"injected fault"}`))
			return
		}
	}
	switch kind {
	case "version":
		body = map[string]interface{}{"version": "v2.5.5"}
	case "self-clique":
		body = map[string]interface{}{"cliqueId": "00", "nodes": []interface{}{}, "selfReady": true, "synced": true}
	case "count":
		addr := strings.TrimSuffix(strings.TrimPrefix(p, "/events/contract/"), "/current-count")
		if addr == s.Core {
			body = len(s.CoreLog)
			detail = fmt.Sprintf("-> %d", len(s.CoreLog))
		} else {
			body = 0
		}
	case "page":
		addr := strings.TrimPrefix(p, "/events/contract/")
		start, _ := strconv.Atoi(q.Get("start"))
		evs := []interface{}{}
		next := start
		if addr == s.Core {
			for i := start; i < len(s.CoreLog) && i < start+s.PageLimit; i++ {
				e := s.CoreLog[i]
				evs = append(evs, map[string]interface{}{"blockHash": e.Block.Hash, "txId": e.TxId, "eventIndex": e.EvIndex, "fields": e.Fields})
				next = i + 1
			}
		}
		detail = fmt.Sprintf("start=%d -> %d events next=%d", start, len(evs), next)
		body = map[string]interface{}{"events": evs, "nextStart": next}
	case "tx-events":
		evs := []interface{}{}
		for _, e := range s.TxEvents[detail] {
			evs = append(evs, map[string]interface{}{"blockHash": e.Block.Hash, "contractAddress": e.Contract, "eventIndex": e.EvIndex, "fields": e.Fields})
		}
		body = map[string]interface{}{"events": evs}
	case "height":
		body = map[string]interface{}{"currentHeight": s.Height}
		detail = fmt.Sprintf("-> %d", s.Height)
	case "header":
		if b, ok := s.Blocks[detail]; ok {
			body = map[string]interface{}{"hash": b.Hash, "timestamp": b.TsMs, "chainFrom": 0, "chainTo": 0, "height": b.Height, "deps": []string{}}
		} else {
			status, body = 404, map[string]interface{}{"detail": "block not found"}
		}
	case "main-chain":
		if b, ok := s.Blocks[detail]; ok {
			body = b.Main
			detail += fmt.Sprintf(" -> %v", b.Main)
		} else {
			status, body = 404, map[string]interface{}{"detail": "block not found"}
		}
	case "tx-status":
		if bh := s.TxBlock[detail]; bh != "" {
			// as the node counts them: the including block is the first confirmation
			conf := int32(1)
			if b := s.Blocks[bh]; b != nil && s.Height >= b.Height {
				conf = s.Height - b.Height + 1
			}
			body = map[string]interface{}{"type": "Confirmed", "blockHash": bh, "txIndex": 0, "chainConfirmations": conf, "fromGroupConfirmations": conf, "toGroupConfirmations": conf}
		} else {
			body = map[string]interface{}{"type": "TxNotFound"}
		}
	case "multicall":
		var req struct {
			Calls []struct {
				Group       int    `json:"group"`
				Address     string `json:"address"`
				MethodIndex int    `json:"methodIndex"`
			} `json:"calls"`
		}
		_ = json.NewDecoder(r.Body).Decode(&req)
		addr := ""
		if len(req.Calls) > 0 {
			addr = req.Calls[0].Address
		}
		detail = addr
		status, body = s.multicall(addr)
		// a contract lives in the world state of one group (the last byte of its id): asked about in any other group, it does
		// not exist there
		tokMu.Lock()
		id := TokenByAddress[addr]
		tokMu.Unlock()
		if len(id) == 64 && len(req.Calls) > 0 {
			if g, err := strconv.ParseUint(id[62:], 16, 8); err == nil && int(g) != req.Calls[0].Group {
				detail += fmt.Sprintf(" (asked in group %d, contract is in group %d)", req.Calls[0].Group, g)
				status, body = 200, map[string]interface{}{"results": []interface{}{failed(), failed(), failed()}}
			}
		}
	default:
		status, body = 404, map[string]interface{}{"detail": "unknown endpoint"}
	}
	s.Log = append(s.Log, LogEntry{len(s.Log), s.Version, kind, detail, status})
	w.Header().Set("Content-Type", "application/json")
	w.WriteHeader(status)
	_ = json.NewEncoder(w).Encode(body)
}

func succ(v map[string]interface{}) map[string]interface{} {
	return map[string]interface{}{"type": "CallContractSucceeded", "returns": []interface{}{v}, "gasUsed": 1, "contracts": []interface{}{}, "txInputs": []string{}, "txOutputs": []interface{}{}, "events": []interface{}{}}
}
func failed() map[string]interface{} {
	return map[string]interface{}{"type": "CallContractFailed", "error": "VM execution error"}
}

// TokenByAddress is set by the harness: contract address -> token id hex.
var TokenByAddress = map[string]string{}
var tokMu sync.Mutex

func (s *Sim) multicall(addr string) (int, interface{}) {
	tokMu.Lock()
	id := TokenByAddress[addr]
	tokMu.Unlock()
	t := s.Tokens[id]
	if t == nil {
		return 200, map[string]interface{}{"results": []interface{}{failed(), failed(), failed()}}
	}
	sym := ByteVec([]byte(t.Symbol))
	name := ByteVec([]byte(t.Name))
	dec := U256(fmt.Sprint(t.Decimals))
	switch t.Mode {
	case "http500":
		return 500, map[string]interface{}{"detail": "boom"}
	case "two-results":
		return 200, map[string]interface{}{"results": []interface{}{succ(sym), succ(name)}}
	case "m1-failed":
		return 200, map[string]interface{}{"results": []interface{}{succ(sym), failed(), succ(dec)}}
	case "m2-failed":
		return 200, map[string]interface{}{"results": []interface{}{succ(sym), succ(name), failed()}}
	case "all-failed":
		return 200, map[string]interface{}{"results": []interface{}{failed(), failed(), failed()}}
	case "wrong-types":
		return 200, map[string]interface{}{"results": []interface{}{succ(dec), succ(Raw("Bool", true)), succ(sym)}}
	case "m0-no-return", "m1-no-return", "m2-no-return", "m0-two-returns": // the call succeeds but does not return exactly one value
		res := []interface{}{succ(sym), succ(name), succ(dec)}
		i := int(t.Mode[1] - '0')
		odd := succ(sym)
		if strings.HasSuffix(t.Mode, "no-return") {
			odd["returns"] = []interface{}{}
		} else {
			odd["returns"] = []interface{}{sym, name}
		}
		res[i] = odd
		return 200, map[string]interface{}{"results": res}
	case "decimals-2^64":
		return 200, map[string]interface{}{"results": []interface{}{succ(sym), succ(name), succ(U256("18446744073709551624"))}} // 2^64 + 8
	case "long":
		return 200, map[string]interface{}{"results": []interface{}{succ(ByteVec(make([]byte, 200))), succ(name), succ(U256("300"))}}
	}
	return 200, map[string]interface{}{"results": []interface{}{succ(sym), succ(name), succ(dec)}}
}

var _ = time.Now

// CountKind2 is CountKind for callers that already hold the lock.
func (s *Sim) CountKind2(kind string) int { return s.kindCount[kind] }
