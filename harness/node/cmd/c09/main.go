// C09 - every final Alephium token-bridge message is eventually observed, exactly once.
// The real watcher runs against the simulated node in child processes. Events are appended
// between the count request and the page requests, pages are small, and the event stream mixes
// well-formed token-bridge messages with foreign and malformed events. Liveness is restated as
// bounded progress in poll rounds; spinning, crashing and restarting are observed in the
// simulator's request log.
package main

import (
	"flag"
	"fmt"
	"math/rand"
	"os"
	"strings"
	"time"

	"verif/harness/node/internal/alphsim"
	"verif/harness/node/internal/vlib"
)

var (
	mode   = flag.String("mode", "parent", "parent|child")
	cseed  = flag.Int64("cseed", 0, "child seed")
	ccount = flag.Int("ccount", 0, "scripts per child")
)

// malformed returns the fields of an event that does not fit the VAA format, plus a label.
func malformed(w *alphsim.World) ([]map[string]interface{}, string) {
	rng := w.Rng
	var sender [32]byte
	rng.Read(sender[:])
	base := func() []map[string]interface{} {
		p := make([]byte, 1+rng.Intn(50))
		rng.Read(p)
		return []map[string]interface{}{alphsim.ByteVec(sender[:]), alphsim.U256("3"), alphsim.U256(fmt.Sprint(rng.Intn(1000))), alphsim.ByteVec([]byte{1, 2, 3, 4}), alphsim.ByteVec(p), alphsim.U256("1")}
	}
	f := base()
	switch rng.Intn(12) {
	case 0:
		f[1] = alphsim.U256("65536")
		return f, "target-chain-65536"
	case 1:
		f[5] = alphsim.U256("256")
		return f, "consistency-256"
	case 2:
		f[2] = alphsim.U256("18446744073709551616")
		return f, "sequence-2^64"
	case 3:
		f[3] = alphsim.ByteVec([]byte{1, 2, 3})
		return f, "nonce-3-bytes"
	case 4:
		f[4] = alphsim.Raw("ByteVec", "abc")
		return f, "payload-odd-hex"
	case 5:
		f[1] = alphsim.U256("115792089237316195423570985008687907853269984665640564039457584007913129639935")
		return f, "target-chain-2^256-1"
	case 6:
		return f[:5], "five-fields"
	case 7:
		return append(f, alphsim.U256("1")), "seven-fields"
	case 8:
		f[1] = alphsim.ByteVec([]byte{1})
		return f, "target-chain-wrong-type"
	case 9:
		f[0] = alphsim.ByteVec(sender[:31])
		return f, "sender-31-bytes"
	case 10:
		f[5] = alphsim.U256("not-a-number")
		return f, "consistency-non-numeric"
	default:
		f[2] = alphsim.U256("-1")
		return f, "sequence-negative"
	}
}

func script(seed int64, idx int) {
	rng := rand.New(rand.NewSource(seed))
	page := []int{1, 2, 3, 100}[rng.Intn(4)]
	mainnet := rng.Intn(2) == 0
	// lrng is only ever used while the simulator's lock is held (by the script inside Mutate and by
	// the request hook inside the HTTP handler); rng belongs to the script goroutine alone
	lrng := rand.New(rand.NewSource(seed ^ 0x5eed))
	w, err := alphsim.NewWorld(lrng, page, mainnet, 2, func(s string) { vlib.CStep(fmt.Sprintf("script %d: %s", idx, s)) })
	if err != nil {
		vlib.CInconclusive("world: " + err.Error())
		return
	}
	defer w.H.Stop()
	desc := fmt.Sprintf("seed=%d page=%d mainnet=%v", seed, page, mainnet)
	var expected []*alphsim.Ev
	var hostile []string
	// emitOne appends one event (inside the simulator lock)
	emitOne := func(s *alphsim.Sim, b *alphsim.Block, class string) {
		tx := fmt.Sprintf("%064x", lrng.Uint64())
		switch class {
		case "good-transfer", "good-attest", "good-boundary":
			kind := "transfer"
			cl := uint8(lrng.Intn(4))
			if class == "good-attest" {
				kind = "attest"
			}
			in := wIntent(w, kind, cl)
			if class == "good-boundary" {
				switch lrng.Intn(3) {
				case 0:
					in.Target = 65535
				case 1:
					in.CL = 255
				default:
					in.Seq = ^uint64(0) - uint64(lrng.Intn(1000))
				}
			}
			e := s.Emit(s.Core, b, tx, 0, alphsim.FieldsOf(in), in, class)
			s.TxBlock[tx] = b.Hash
			expected = append(expected, e)
		case "good-two-in-one-tx":
			// one transaction publishes two messages: the node reports both under the same block hash, transaction id and
			// event index, and a page boundary may fall between them
			for k := 0; k < 2; k++ {
				in := wIntent(w, "transfer", uint8(lrng.Intn(3)))
				e := s.Emit(s.Core, b, tx, 0, alphsim.FieldsOf(in), in, fmt.Sprintf("%s(%d of 2)", class, k+1))
				expected = append(expected, e)
			}
			s.TxBlock[tx] = b.Hash
		case "foreign-sender":
			in := wIntent(w, "foreign-sender", uint8(lrng.Intn(3)))
			s.Emit(s.Core, b, tx, 0, alphsim.FieldsOf(in), in, class)
		case "foreign-attest-bad-token":
			in := wIntent(w, "attest-bad-token", uint8(lrng.Intn(3)))
			lrng.Read(in.Sender[:])
			s.Emit(s.Core, b, tx, 0, alphsim.FieldsOf(in), in, class+":"+s.Tokens[fmt.Sprintf("%x", in.Payload[1:33])].Mode)
			hostile = append(hostile, class+":"+s.Tokens[fmt.Sprintf("%x", in.Payload[1:33])].Mode)
			return
		case "foreign-empty-payload":
			// anybody can publish through the core contract: a message with an empty payload from a stranger
			in := wIntent(w, "foreign-sender", uint8(lrng.Intn(3)))
			in.Payload = []byte{}
			s.Emit(s.Core, b, tx, 0, alphsim.FieldsOf(in), in, class)
		case "foreign-attest-short":
			in := wIntent(w, "attest", 0)
			lrng.Read(in.Sender[:])
			in.Payload = in.Payload[:99]
			s.Emit(s.Core, b, tx, 0, alphsim.FieldsOf(in), in, class)
		case "malformed":
			f, label := malformed(w)
			s.Emit(s.Core, b, tx, 0, f, nil, "malformed:"+label)
			hostile = append(hostile, "malformed:"+label)
			return
		}
		hostile = append(hostile, class)
	}
	classes := []string{"good-transfer", "good-transfer", "good-attest", "good-boundary", "good-two-in-one-tx", "foreign-empty-payload", "foreign-sender", "foreign-attest-bad-token", "foreign-attest-short", "malformed", "malformed"}
	// stepLiveness: every expected message that is already confirmable (block height + consistency level <=
	// current height) must have been forwarded once the watcher is quiescent; re-checked after further
	// quiescent periods before it is reported.
	reported := map[int]bool{}
	floorEnd := map[int]int64{} // events held by a wall-clock floor that ends during the script: event id -> end (ms)
	stepLiveness := func(where string) {
		for attempt := 0; attempt < 4; attempt++ {
			evs := w.H.AllEvents()
			got := map[int]int{}
			for _, a := range w.H.ArrivalsCopy() {
				if e := alphsim.Match(a.Msg, evs); e != nil {
					got[e.ID]++
				}
			}
			var height int32
			w.Sim.WithLock(func() { height = w.Sim.Height })
			var missing []*alphsim.Ev
			for _, e := range expected {
				if fe, ok := floorEnd[e.ID]; ok && time.Now().UnixMilli() < fe+300 {
					continue // still held by the wall-clock floor
				}
				if got[e.ID] == 0 && !reported[e.ID] && e.Block.Height+int32(e.Intent.CL) <= height {
					missing = append(missing, e)
				}
			}
			if len(missing) == 0 {
				return
			}
			if attempt < 3 {
				if !w.H.WaitRounds(6, 20*time.Second) {
					return // judged at the end from the request log (spin / stall)
				}
				continue
			}
			for _, e := range missing {
				reported[e.ID] = true
				vlib.CFinding("confirmable-message-not-forwarded-while-watcher-idle:"+where, map[string]interface{}{"script": desc, "trace": w.Trace, "poller_enabled": w.H.W.VerifBlockPollerEnabled(),
					"event": fmt.Sprintf("log index %d seq=%d cl=%d block height %d (chain height %d) note=%s", e.LogIdx, e.Intent.Seq, e.Intent.CL, e.Block.Height, height, e.Note)})
			}
		}
	}
	if !w.H.WaitRounds(2, 25*time.Second) {
		vlib.CInconclusive("watcher never started polling: " + desc)
		return
	}
	nSteps := 4 + rng.Intn(8)
	for st := 0; st < nSteps; st++ {
		if rng.Intn(4) == 0 {
			// new events arrive exactly while the watcher is confirming an earlier batch: several blocks become
			// confirmable at once, and at the first main-chain query of that pass another block is appended
			nb := 3 + rng.Intn(3)
			w.Sim.Mutate("emit-several-blocks", func(s *alphsim.Sim) {
				for i := 0; i < nb; i++ {
					b := w.NewBlock(s, false)
					emitOne(s, b, "good-transfer")
				}
				s.SetHeight(s.Height + 4)
			})
			armed := true
			w.Sim.WithLock(func() {
				w.Sim.OnRequest = func(s *alphsim.Sim, kind string, ord int, detail string) {
					if armed && kind == "main-chain" {
						armed = false
						s.Version++
						b := w.NewBlock(s, false)
						emitOne(s, b, "good-transfer")
						emitOne(s, b, "good-attest")
						s.SetHeight(s.Height + 4)
					}
				}
			})
			w.Tr(fmt.Sprintf("emit %d blocks with one transfer each, all confirmable; one more block with two messages is appended at the first main-chain query of the confirmation pass", nb))
			vlib.CCount("append_while_confirming", 1)
			if !w.H.WaitRounds(3, 30*time.Second) {
				break
			}
			w.Sim.WithLock(func() { w.Sim.OnRequest = nil })
			stepLiveness("append-while-confirming")
			continue
		}
		if mainnet && rng.Intn(5) == 0 {
			// the wall-clock floor of a mainnet transfer (205 block intervals) ends a few seconds from now, while the chain races
			// ahead: the block is hundreds of blocks deep long before the message may be forwarded - and it must still be
			// forwarded once the floor has passed
			floorIn := int64(2500 + rng.Intn(1500))
			var ev *alphsim.Ev
			w.Sim.Mutate("emit-near-time-floor", func(s *alphsim.Sim) {
				b := w.NewBlockAt(s, time.Now().UnixMilli()-205*16000+floorIn)
				n := len(expected)
				emitOne(s, b, "good-transfer")
				ev = expected[n]
				s.SetHeight(s.Height + 300 + int32(rng.Intn(200)))
			})
			floorEnd[ev.ID] = ev.Block.TsMs + 205*16000
			w.Tr(fmt.Sprintf("emit a transfer whose wall-clock floor ends in %d ms; height +300..500 at once", floorIn))
			vlib.CCount("transfers_near_time_floor", 1)
			w.H.WaitRounds(3, 30*time.Second)
			time.Sleep(time.Duration(floorIn+700) * time.Millisecond)
			w.Sim.Mutate("advance", func(s *alphsim.Sim) { s.SetHeight(s.Height + 1) })
			if !w.H.WaitRounds(6, 30*time.Second) {
				break
			}
			stepLiveness("after-time-floor")
			continue
		}
		if rng.Intn(7) == 0 {
			// a reorg orphans the block of a message that is still waiting for its confirmations, and the same transaction is
			// mined again on the new main chain: the copy in the orphaned block must never come out, the re-mined one must
			cl := uint8(2 + lrng.Intn(3))
			var old *alphsim.Block
			var e1 *alphsim.Ev
			var txid string
			w.Sim.Mutate("emit-pending", func(s *alphsim.Sim) {
				old = w.NewBlock(s, false)
				txid = fmt.Sprintf("%064x", lrng.Uint64())
				in := wIntent(w, "transfer", cl)
				e1 = s.Emit(s.Core, old, txid, 0, alphsim.FieldsOf(in), in, "good-transfer(later orphaned)")
				s.TxBlock[txid] = old.Hash
			})
			w.Tr(fmt.Sprintf("emit a transfer (consistency %d) in block %s; it stays pending", cl, old.Hash[:8]))
			if !w.H.WaitRounds(3, 30*time.Second) {
				break
			}
			w.Sim.Mutate("reorg-remine-pending", func(s *alphsim.Sim) {
				s.SetMain(old.Hash, false)
				nb := s.AddBlock(fmt.Sprintf("%064x", lrng.Uint64()), old.Height, old.TsMs+7, true)
				e2 := s.Emit(s.Core, nb, txid, 0, e1.Fields, e1.Intent, "good-transfer(re-mined after the reorg)")
				s.TxBlock[txid] = nb.Hash
				expected = append(expected, e2)
			})
			w.Tr("reorg: that block is orphaned and the transaction is mined again in the new main-chain block of the same height")
			vlib.CCount("pending_message_remined_after_reorg", 1)
			if !w.H.WaitRounds(3, 30*time.Second) {
				break
			}
			w.Sim.Mutate("advance", func(s *alphsim.Sim) { s.SetHeight(s.Height + int32(cl) + 2) })
			if !w.H.WaitRounds(4, 30*time.Second) {
				break
			}
			stepLiveness("re-mined-after-reorg")
			continue
		}
		if rng.Intn(6) == 0 {
			// what the node says about a token contract changes over time: an attestation-shaped event of a stranger names a
			// token whose contract does not exist yet (metadata calls fail), then the contract is created and the token bridge
			// attests it; later its metadata changes and it is attested again. Each genuine attestation must be observed.
			id := w.ReserveToken()
			w.Sim.Mutate("foreign-attest-of-missing-token", func(s *alphsim.Sim) {
				b := w.NewBlock(s, false)
				in := w.AttestFor(id, "NEW", "New token", 8, uint8(lrng.Intn(2)))
				lrng.Read(in.Sender[:])
				s.Emit(s.Core, b, fmt.Sprintf("%064x", lrng.Uint64()), 0, alphsim.FieldsOf(in), in, "foreign-attest-of-not-yet-created-token")
				hostile = append(hostile, "foreign-attest-of-not-yet-created-token")
				s.SetHeight(s.Height + 3)
			})
			w.Tr("a stranger's attestation-shaped event names a token contract that does not exist yet")
			if !w.H.WaitRounds(3, 30*time.Second) {
				break
			}
			w.Sim.Mutate("create-token-and-attest", func(s *alphsim.Sim) {
				w.CreateToken(s, id, "NEW", "New token", 8)
				b := w.NewBlock(s, false)
				in := w.AttestFor(id, "NEW", "New token", 8, uint8(lrng.Intn(2)))
				tx := fmt.Sprintf("%064x", lrng.Uint64())
				e := s.Emit(s.Core, b, tx, 0, alphsim.FieldsOf(in), in, "good-attest-of-just-created-token")
				s.TxBlock[tx] = b.Hash
				expected = append(expected, e)
				s.SetHeight(s.Height + 3)
			})
			w.Tr("the token contract is created and the token bridge attests it")
			vlib.CCount("token_created_after_foreign_attestation", 1)
			if !w.H.WaitRounds(3, 30*time.Second) {
				break
			}
			stepLiveness("token-created-later")
			w.Sim.Mutate("change-metadata-and-attest", func(s *alphsim.Sim) {
				w.CreateToken(s, id, "NEW2", "New token, renamed", 9)
				b := w.NewBlock(s, false)
				in := w.AttestFor(id, "NEW2", "New token, renamed", 9, 0)
				tx := fmt.Sprintf("%064x", lrng.Uint64())
				e := s.Emit(s.Core, b, tx, 0, alphsim.FieldsOf(in), in, "good-attest-after-metadata-change")
				s.TxBlock[tx] = b.Hash
				expected = append(expected, e)
				s.SetHeight(s.Height + 3)
			})
			w.Tr("the token's metadata changes and it is attested again")
			if !w.H.WaitRounds(3, 30*time.Second) {
				break
			}
			stepLiveness("re-attested-after-metadata-change")
			continue
		}
		// a batch appended in one block ...
		n := 1 + rng.Intn(5)
		var batch []string
		for i := 0; i < n; i++ {
			batch = append(batch, classes[rng.Intn(len(classes))])
		}
		// ... some of it between the count answer and the page answers
		late := []int{0, 0, 1, page, page + 1}[rng.Intn(5)]
		later := []int{0, 0, 1}[rng.Intn(3)]
		var blk *alphsim.Block
		w.Sim.Mutate("emit-batch", func(s *alphsim.Sim) {
			blk = w.NewBlock(s, false)
			for _, c := range batch {
				emitOne(s, blk, c)
			}
		})
		w.Tr(fmt.Sprintf("emit %v in block %s (height %d); then %d more between count and first page, %d more before the second page", batch, blk.Hash[:8], blk.Height, late, later))
		if late+later > 0 {
			state := 0
			w.Sim.WithLock(func() {
				w.Sim.OnRequest = func(s *alphsim.Sim, kind string, ord int, detail string) {
					switch {
					case state == 0 && kind == "count":
						state = 1 // the count answered now excludes what follows
					case state == 1 && kind == "page":
						state = 2
						s.Version++
						for i := 0; i < late; i++ {
							emitOne(s, blk, classes[lrng.Intn(len(classes))])
						}
					case state == 2 && kind == "page":
						state = 3
						s.Version++
						for i := 0; i < later; i++ {
							emitOne(s, blk, classes[lrng.Intn(len(classes))])
						}
					}
				}
			})
		}
		if rng.Intn(2) == 0 {
			w.Sim.Mutate("advance", func(s *alphsim.Sim) { s.SetHeight(s.Height + int32(rng.Intn(4))) })
		}
		if rng.Intn(4) == 0 { // a request of the confirmation pass (or a page request) is slow: the watcher's goroutines overlap differently
			kind := []string{"main-chain", "main-chain", "header", "page", "height"}[rng.Intn(5)]
			w.Sim.SlowNext(kind, 1+rng.Intn(2), time.Duration(30+rng.Intn(90))*time.Millisecond)
			w.Tr("the next " + kind + " request(s) are slow")
			vlib.CCount("slow_requests_injected", 1)
		}
		if !w.H.WaitRounds(3, 30*time.Second) {
			break // judged below from the request log
		}
		w.Sim.WithLock(func() { w.Sim.OnRequest = nil })
		stepLiveness("after-batch")
	}
	w.Sim.WithLock(func() { w.Sim.OnRequest = nil })
	finalV := 0
	w.Sim.Mutate("final-advance", func(s *alphsim.Sim) { s.SetHeight(s.Height + 600); finalV = s.Version })
	w.Tr("advance height by 600 (final); bounded progress: 6 further poll rounds")
	progressed := w.H.WaitRounds(6, 40*time.Second)
	// ---------------- oracles over the request log
	log := w.Sim.LogCopy()
	wit := func(extra map[string]interface{}) map[string]interface{} {
		m := map[string]interface{}{"script": desc, "trace": w.Trace, "events_in_stream": hostile}
		for k, v := range extra {
			m[k] = v
		}
		return m
	}
	// spin: the same page request over and over
	run, maxRun, runStart := 0, 0, ""
	prev := ""
	pagesSinceCount, maxPages := 0, 0
	versions := 0
	for _, e := range log {
		switch e.Kind {
		case "page":
			key := strings.SplitN(e.Detail, " ", 2)[0]
			if key == prev {
				run++
			} else {
				run, prev = 1, key
			}
			if run > maxRun {
				maxRun, runStart = run, key
			}
			pagesSinceCount++
			if pagesSinceCount > maxPages {
				maxPages = pagesSinceCount
			}
		case "count":
			pagesSinceCount = 0
			prev, run = "", 0
		case "version":
			versions++
		}
	}
	vlib.CCount("requests_served", int64(len(log)))
	if maxRun > 50 {
		var tail []string
		for _, e := range log[maxInt(0, len(log)-12):] {
			tail = append(tail, fmt.Sprintf("#%d v%d %s %s", e.N, e.Version, e.Kind, e.Detail))
		}
		vlib.CFinding("watcher-spins-on-identical-page-requests", wit(map[string]interface{}{"identical_requests_in_a_row": maxRun, "request": runStart, "request_log_tail": tail}))
	} else if !progressed {
		vlib.CFinding("watcher-stalled-without-polling", wit(map[string]interface{}{"requests": len(log)}))
	}
	if versions > 1 {
		var restartCause string
		for _, e := range log {
			if e.Kind == "version" {
				restartCause = fmt.Sprintf("request #%d", e.N)
			}
		}
		vlib.CFinding("watcher-restarted-by-event-content", wit(map[string]interface{}{"watcher_starts_seen": versions, "last_start": restartCause}))
	}
	// ---------------- bounded progress: every expected event delivered exactly once
	if progressed && maxRun <= 50 {
		var arr []alphsim.Arrival
		evs := w.H.AllEvents()
		got := map[int]int{}
		// a message still missing after the bound is re-checked after further quiescent periods: a
		// lost message stays lost, a slow hand-over does not
		for attempt := 0; attempt < 4; attempt++ {
			arr = w.H.ArrivalsCopy()
			got = map[int]int{}
			for _, a := range arr {
				if e := alphsim.Match(a.Msg, evs); e != nil {
					got[e.ID]++
				}
			}
			missing := 0
			for _, e := range expected {
				if got[e.ID] == 0 {
					missing++
				}
			}
			if missing == 0 {
				break
			}
			w.H.WaitRounds(6, 20*time.Second)
		}
		for _, a := range arr {
			if alphsim.Match(a.Msg, evs) == nil {
				vlib.CFinding("delivered-message-matches-no-emitted-event", wit(nil))
			}
		}
		for _, e := range expected {
			vlib.CCount("expected_messages", 1)
			switch got[e.ID] {
			case 1:
				vlib.CCount("delivered_exactly_once", 1)
			case 0:
				cls := "token-bridge-message-never-observed"
				if versions > 1 {
					cls += ":after-watcher-restart"
				}
				fetched := 0
				for _, le := range log {
					var st, k, nx int
					if le.Kind == "page" {
						if n, _ := fmt.Sscanf(le.Detail, "start=%d -> %d events next=%d", &st, &k, &nx); n == 3 && e.LogIdx >= st && e.LogIdx < nx {
							fetched++
						}
					}
				}
				hr := 0
				for _, le := range log {
					if le.Kind == "height" && le.Version >= finalV {
						hr++
					}
				}
				vlib.CFinding(cls+":"+e.Note, wit(map[string]interface{}{"times_fetched_in_a_page": fetched, "height_polls_after_final_advance": hr, "arrivals": len(arr), "poller_enabled_now": w.H.W.VerifBlockPollerEnabled(), "event": fmt.Sprintf("log index %d seq=%d target=%d cl=%d note=%s block height %d tx=%s block=%s", e.LogIdx, e.Intent.Seq, e.Intent.Target, e.Intent.CL, e.Note, e.Block.Height, e.TxId, e.Block.Hash)}))
			default:
				vlib.CFinding("token-bridge-message-observed-more-than-once", wit(map[string]interface{}{"times": got[e.ID], "event": e.Note}))
			}
		}
	}
	// ---------------- epilogue: one transient failure of the idle polling loop makes the supervisor restart the
	// watcher. Nothing is pending at that point, so the restart must neither deliver an already forwarded message
	// again by polling nor miss what is emitted afterwards.
	if progressed && maxRun <= 50 && versions <= 1 && rng.Intn(2) == 0 {
		before := map[int]int{}
		evs := w.H.AllEvents()
		for _, a := range w.H.ArrivalsCopy() {
			if e := alphsim.Match(a.Msg, evs); e != nil {
				before[e.ID]++
			}
		}
		w.Sim.WithLock(func() {
			if w.Sim.Faults["count"] == nil {
				w.Sim.Faults["count"] = map[int]string{}
			}
			w.Sim.Faults["count"][w.Sim.CountKind2("count")+1] = "500"
		})
		w.Tr("epilogue: 500 on the next current-count request (watcher restart with nothing pending)")
		restarted := false
		for i := 0; i < 240 && !restarted; i++ {
			time.Sleep(250 * time.Millisecond)
			n := 0
			for _, e := range w.Sim.LogCopy() {
				if e.Kind == "version" {
					n++
				}
			}
			restarted = n > versions
		}
		if !restarted || !w.H.WaitRounds(3, 40*time.Second) {
			vlib.CInconclusive("epilogue: the watcher was not seen restarting within 60s after the injected failure: " + desc)
		} else {
			var fresh *alphsim.Ev
			w.Sim.Mutate("emit-after-restart", func(s *alphsim.Sim) {
				b := w.NewBlock(s, false)
				n := len(expected)
				emitOne(s, b, "good-transfer")
				fresh = expected[n]
				s.SetHeight(s.Height + 10)
			})
			w.Tr("epilogue: one more transfer after the restart, height +10")
			w.H.WaitRounds(6, 40*time.Second)
			after := map[int]int{}
			for attempt := 0; attempt < 4; attempt++ {
				after = map[int]int{}
				evs = w.H.AllEvents()
				for _, a := range w.H.ArrivalsCopy() {
					if e := alphsim.Match(a.Msg, evs); e != nil {
						after[e.ID]++
					}
				}
				if after[fresh.ID] > 0 {
					break
				}
				w.H.WaitRounds(6, 20*time.Second)
			}
			vlib.CCount("restart_epilogues", 1)
			again := 0
			for id, n := range after {
				if id != fresh.ID && n > before[id] {
					again++
				}
			}
			if again > 0 {
				vlib.CFinding("already-forwarded-message-forwarded-again-by-polling-after-watcher-restart", wit(map[string]interface{}{"messages_forwarded_again": again, "forwarded_before_restart": len(before)}))
			}
			switch after[fresh.ID] {
			case 1:
				vlib.CCount("delivered_exactly_once_after_restart", 1)
			case 0:
				vlib.CFinding("token-bridge-message-never-observed:emitted-after-watcher-restart", wit(map[string]interface{}{"poller_enabled_now": w.H.W.VerifBlockPollerEnabled()}))
			default:
				vlib.CFinding("token-bridge-message-observed-more-than-once:emitted-after-watcher-restart", wit(map[string]interface{}{"times": after[fresh.ID]}))
			}
		}
	}
	for _, f := range w.H.JudgeSafety(desc) { // nothing else may come out either
		vlib.CFinding("unexpected:"+f.Class, f.Witness)
	}
	vlib.CCount("scripts", 1)
	vlib.CCount("max_identical_page_requests_seen", 0)
	vlib.CDistinct("scripts_distinct", fmt.Sprintf("%s/%v", desc, w.Trace))
	for _, h := range hostile {
		vlib.CDistinct("event_classes", h)
	}
	if idx == 0 {
		vlib.CSample(map[string]interface{}{"script": desc, "trace": w.Trace, "expected": len(expected)})
	}
}

func wIntent(w *alphsim.World, kind string, cl uint8) *alphsim.Intent { return w.Intent(kind, cl) }

func maxInt(a, b int) int {
	if a > b {
		return a
	}
	return b
}

func main() {
	flag.Parse()
	if *mode == "child" {
		for i := 0; i < *ccount; i++ {
			script(*cseed*1000+int64(i), i)
		}
		vlib.CDone()
		return
	}
	r := vlib.Start("C09", "exploration")
	self, _ := os.Executable()
	batches, per := r.Pick(16, 160), r.Pick(4, 8)
	r.RunChildren(self, batches, per, 16, 12*time.Minute)
	r.Count("evaluations", r.GetCount("scripts"))
	if r.GetCount("expected_messages") == 0 {
		r.Inconclusive("no token-bridge message was ever expected")
	}
	r.Assume("liveness restated as bounded progress: after the last mutation the simulator keeps answering and within 6 further completed poll rounds every well-formed token-bridge event of a main-chain block whose confirmation conditions hold must have been forwarded exactly once",
		"block timestamps are ~100 days old so that no wall-clock floor delays a delivery, except in the dedicated mainnet step whose floor ends 2.5-4 s after the emission (judged against the time of arrival)", "no API faults are injected while messages are pending (only token-metadata calls of attacker-named contracts misbehave); half of the scripts end with one failed current-count request when nothing is pending, i.e. a supervisor restart of the watcher")
	r.Finish("evaluations", "scripts_distinct", "page limits {1,2,3,100}; batches of 1-5 events per block mixing well-formed token-bridge transfers/attestations (incl. target chain 65535, consistency 255, sequence near 2^64, two messages published by one transaction) with foreign-sender events, attestation-shaped events naming contracts whose metadata calls fail or answer oddly in eleven ways (HTTP error, two results, single methods failed, wrong value types, over-long values, a succeeded call with no or with two return values), and twelve kinds of malformed events; 0/1/page/page+1 further events appended between the count answer and the first page answer and before the second page; distinct non-trivial = distinct script traces", 20)
}
