// C20 - spy subscribers receive exactly the VAAs matching their filters, independently.
// The real spyServer (through the verif hook) is driven with fake gRPC streams whose Send can be
// gated. Delivery oracle: what every reading subscriber received equals the published VAAs that
// match its filters, in order. Independence: one subscriber stalls or disconnects at a generated
// point; Publish, the other subscribers and (un)subscription must keep working. A blocked
// Publish is only reported with a structural witness (goroutine dump: parked in chan send inside
// spy.go while the subscription mutex cannot be taken at two instants).
package main

import (
	"context"
	"encoding/hex"
	"errors"
	"fmt"
	"math/rand"
	"runtime"
	"strings"
	"sync"
	"time"

	"github.com/alephium/wormhole-fork/node/cmd/spy"
	publicrpcv1 "github.com/alephium/wormhole-fork/node/pkg/proto/publicrpc/v1"
	spyv1 "github.com/alephium/wormhole-fork/node/pkg/proto/spy/v1"
	"github.com/alephium/wormhole-fork/node/pkg/vaa"
	"go.uber.org/zap"
	"google.golang.org/grpc/metadata"
	"verif/harness/node/internal/vlib"
)

var r *vlib.Run

type emitter struct {
	chain uint16
	addr  vaa.Address
}

var universe []emitter

type stream struct {
	ctx    context.Context
	cancel context.CancelFunc
	mu     sync.Mutex
	got    [][]byte
	delay  time.Duration // a live but slow reader: every Send takes this long
	gate   chan struct{} // when non-nil, Send blocks until it is closed
	failed error         // when set, Send returns it after the gate opens
	inSend bool
}

func (s *stream) Send(m *spyv1.SubscribeSignedVAAResponse) error {
	s.mu.Lock()
	g := s.gate
	d := s.delay
	s.inSend = true
	s.mu.Unlock()
	if g != nil {
		<-g
	}
	if d > 0 {
		time.Sleep(d)
	}
	s.mu.Lock()
	defer s.mu.Unlock()
	s.inSend = false
	if s.failed != nil {
		return s.failed
	}
	s.got = append(s.got, m.VaaBytes)
	return nil
}
func (s *stream) SetHeader(metadata.MD) error  { return nil }
func (s *stream) SendHeader(metadata.MD) error { return nil }
func (s *stream) SetTrailer(metadata.MD)       {}
func (s *stream) Context() context.Context     { return s.ctx }
func (s *stream) SendMsg(m interface{}) error  { return nil }
func (s *stream) RecvMsg(m interface{}) error  { return nil }
func (s *stream) isInSend() bool {
	s.mu.Lock()
	defer s.mu.Unlock()
	return s.inSend
}
func (s *stream) count() int {
	s.mu.Lock()
	defer s.mu.Unlock()
	return len(s.got)
}

type sub struct {
	filters []emitter
	st      *stream
	done    chan error
}

func (s *sub) matches(e emitter) int {
	if len(s.filters) == 0 {
		return 1
	}
	n := 0
	for _, f := range s.filters {
		if f == e {
			n++
		}
	}
	return n
}

func mkVAA(rng *rand.Rand, e emitter, seq uint64) []byte {
	v := &vaa.VAA{Version: 1, GuardianSetIndex: 1, Timestamp: time.Unix(1700000000, 0), Nonce: rng.Uint32(), Sequence: seq, ConsistencyLevel: 1,
		EmitterChain: vaa.ChainID(e.chain), TargetChain: vaa.ChainID(rng.Intn(5)), EmitterAddress: e.addr, Payload: make([]byte, 1+rng.Intn(40))}
	rng.Read(v.Payload)
	v.Signatures = []*vaa.Signature{{Index: 0}}
	b, _ := v.Marshal()
	return b
}

func subscribe(srv *spy.VerifSpyServer, rng *rand.Rand, nf int) *sub {
	s := &sub{done: make(chan error, 1)}
	ctx, cancel := context.WithCancel(context.Background())
	s.st = &stream{ctx: ctx, cancel: cancel}
	req := &spyv1.SubscribeSignedVAARequest{}
	for i := 0; i < nf; i++ {
		e := universe[rng.Intn(len(universe))]
		if i > 0 && rng.Intn(4) == 0 {
			e = s.filters[0] // repeated filter
		}
		s.filters = append(s.filters, e)
		spelled := hex.EncodeToString(e.addr[:]) // hex is case-insensitive: clients write addresses in lower, upper or mixed case
		switch rng.Intn(4) {
		case 0:
			spelled = strings.ToUpper(spelled)
		case 1:
			b := []byte(spelled)
			for i := range b {
				if rng.Intn(2) == 0 {
					b[i] = strings.ToUpper(string(b[i]))[0]
				}
			}
			spelled = string(b)
		}
		req.Filters = append(req.Filters, &spyv1.FilterEntry{Filter: &spyv1.FilterEntry_EmitterFilter{EmitterFilter: &spyv1.EmitterFilter{ChainId: publicrpcv1.ChainID(e.chain), EmitterAddress: spelled}}})
	}
	go func() { s.done <- srv.SubscribeSignedVAA(req, s.st) }()
	return s
}

func waitSubs(srv *spy.VerifSpyServer, n int) bool {
	deadline := time.Now().Add(10 * time.Second)
	for time.Now().Before(deadline) {
		if srv.VerifSubscriptionCount() == n {
			return true
		}
		time.Sleep(200 * time.Microsecond)
	}
	return false
}

func publishWD(srv *spy.VerifSpyServer, b []byte, wd time.Duration) (blocked bool, err error) {
	done := make(chan error, 1)
	go func() { done <- srv.Publish(b) }()
	select {
	case err := <-done:
		return false, err
	case <-time.After(wd):
		return true, nil
	}
}

func publishDump() (string, bool) {
	buf := make([]byte, 4<<20)
	n := runtime.Stack(buf, true)
	for _, g := range strings.Split(string(buf[:n]), "\n\n") {
		if strings.Contains(g, "spy.(*spyServer).Publish") && strings.Contains(strings.SplitN(g, "\n", 2)[0], "chan send") {
			return g, true
		}
	}
	return "", false
}

func describe(subs []*sub) []string {
	var out []string
	for i, s := range subs {
		var fs []string
		for _, f := range s.filters {
			fs = append(fs, fmt.Sprintf("%d/..%x", f.chain, f.addr[30:]))
		}
		out = append(out, fmt.Sprintf("sub%d filters=%v", i, fs))
	}
	return out
}

// checkDelivery compares what a subscriber received with the published stream.
func checkDelivery(tag string, subs []*sub, pubs [][]byte, ems []emitter, skip map[int]bool, extra map[string]interface{}) {
	for si, s := range subs {
		if skip[si] {
			continue
		}
		var want [][]byte
		var minWant int
		for i, b := range pubs {
			k := s.matches(ems[i])
			for j := 0; j < k; j++ {
				want = append(want, b)
			}
			if k > 0 {
				minWant++
			}
		}
		// wait for delivery (bounded; once deliveries have gone missing the wait is cut short so that a
		// broken filter does not cost 10 s per subscriber for the rest of the run)
		wait := 10 * time.Second
		if r.GetCount("missing_delivery_waits") >= 3 {
			wait = 300 * time.Millisecond
		}
		deadline := time.Now().Add(wait)
		last, lastChange := -1, time.Now()
		for time.Now().Before(deadline) {
			c := s.st.count()
			if c >= len(want) {
				break
			}
			if c != last {
				last, lastChange = c, time.Now()
			}
			// every matching VAA has arrived at least once and nothing has moved for a while: an implementation
			// that delivers once per VAA instead of once per matching filter is allowed, do not wait for more
			if c >= minWant && time.Since(lastChange) > 150*time.Millisecond {
				break
			}
			time.Sleep(200 * time.Microsecond)
		}
		s.st.mu.Lock()
		got := append([][]byte{}, s.st.got...)
		s.st.mu.Unlock()
		r.Count("subscriber_streams_checked", 1)
		r.Count("deliveries_checked", int64(len(got)))
		w := map[string]interface{}{"phase": tag, "subscriber": si, "subscribers": describe(subs), "published": len(pubs), "expected_deliveries": len(want), "got_deliveries": len(got)}
		for k, v := range extra {
			w[k] = v
		}
		// every delivered VAA is a published one that matches a filter, in publication order, at least once and
		// at most once per matching filter
		index := map[string]int{}
		for i, b := range pubs {
			index[string(b)] = i
		}
		times := map[int]int{}
		prevIdx, bad := -1, ""
		for _, g := range got {
			i, known := index[string(g)]
			switch {
			case !known:
				bad = "never-published-VAA-delivered"
			case s.matches(ems[i]) == 0:
				bad = "non-matching-VAA-delivered"
				w["non_matching_emitter"] = fmt.Sprintf("%d/..%x", ems[i].chain, ems[i].addr[30:])
			case i < prevIdx:
				bad = "VAAs-delivered-out-of-order"
			}
			if bad != "" {
				break
			}
			prevIdx = i
			times[i]++
		}
		if bad != "" {
			r.Violation(tag+":"+bad, w)
			continue
		}
		for i := range pubs {
			k := s.matches(ems[i])
			if k > 0 && times[i] == 0 {
				r.Count("missing_delivery_waits", 1)
				r.Violation(tag+":matching-VAA-not-delivered", w)
				break
			}
			if times[i] > k {
				r.Violation(tag+":VAA-delivered-more-often-than-filters-match", w)
				break
			}
		}
	}
}

// degenerateFilters: a filter entry may carry no (known) filter kind at all - a client built against a newer API, or
// an empty entry. Such a request is either refused, or the entry matches nothing; it must never widen the subscription.
func degenerateFilters(rng *rand.Rand, idx int) {
	srv := spy.VerifNewSpyServer(zap.NewNop())
	s := &sub{done: make(chan error, 1)}
	ctx, cancel := context.WithCancel(context.Background())
	defer cancel()
	s.st = &stream{ctx: ctx, cancel: cancel}
	req := &spyv1.SubscribeSignedVAARequest{}
	shape := []string{"one-empty-entry", "two-empty-entries", "empty-entry-then-emitter-filter", "emitter-filter-then-empty-entry"}[rng.Intn(4)]
	valid := universe[rng.Intn(len(universe))]
	ef := &spyv1.FilterEntry{Filter: &spyv1.FilterEntry_EmitterFilter{EmitterFilter: &spyv1.EmitterFilter{ChainId: publicrpcv1.ChainID(valid.chain), EmitterAddress: hex.EncodeToString(valid.addr[:])}}}
	switch shape {
	case "one-empty-entry":
		req.Filters = []*spyv1.FilterEntry{{}}
	case "two-empty-entries":
		req.Filters = []*spyv1.FilterEntry{{}, {}}
	case "empty-entry-then-emitter-filter":
		req.Filters = []*spyv1.FilterEntry{{}, ef}
		s.filters = []emitter{valid}
	default:
		req.Filters = []*spyv1.FilterEntry{ef, {}}
		s.filters = []emitter{valid}
	}
	go func() { s.done <- srv.SubscribeSignedVAA(req, s.st) }()
	refused := false
	deadline := time.Now().Add(2 * time.Second)
	for time.Now().Before(deadline) && srv.VerifSubscriptionCount() == 0 && !refused {
		select {
		case <-s.done:
			refused = true
		default:
			time.Sleep(200 * time.Microsecond)
		}
	}
	r.Count("degenerate_filter_requests", 1)
	r.Distinct("scenarios_distinct", "degenerate/"+shape)
	if refused {
		r.Count("degenerate_filter_requests_refused", 1)
		return
	}
	if srv.VerifSubscriptionCount() == 0 {
		r.InconclusiveCase("degenerate filter request neither refused nor registered within 2s")
		return
	}
	var pubs [][]byte
	var ems []emitter
	for i := 0; i < 24; i++ {
		e := universe[i%len(universe)]
		b := mkVAA(rng, e, uint64(idx)*1000+uint64(i))
		if blocked, err := publishWD(srv, b, 10*time.Second); blocked || err != nil {
			r.InconclusiveCase("publish failed in the degenerate-filter scenario")
			return
		}
		pubs, ems = append(pubs, b), append(ems, e)
	}
	time.Sleep(30 * time.Millisecond)
	index := map[string]int{}
	for i, b := range pubs {
		index[string(b)] = i
	}
	s.st.mu.Lock()
	got := append([][]byte{}, s.st.got...)
	s.st.mu.Unlock()
	for _, g := range got {
		i, known := index[string(g)]
		matches := false
		if known {
			for _, f := range s.filters {
				matches = matches || f == ems[i]
			}
		}
		if !matches {
			r.Violation("delivery:filter-entry-without-a-filter-widens-the-subscription:"+shape, map[string]interface{}{"request": shape, "received": len(got), "published": len(pubs), "valid_filter": fmt.Sprintf("%d/..%x", valid.chain, valid.addr[30:])})
			break
		}
	}
	s.st.cancel()
}

func deliveryScenario(rng *rand.Rand, idx int) {
	srv := spy.VerifNewSpyServer(zap.NewNop())
	nSubs := 1 + rng.Intn(8)
	var subs []*sub
	for i := 0; i < nSubs; i++ {
		subs = append(subs, subscribe(srv, rng, rng.Intn(4)))
	}
	if !waitSubs(srv, nSubs) {
		r.InconclusiveCase("subscriptions did not register")
		return
	}
	if rng.Intn(3) == 0 { // one subscriber keeps reading, but slowly: it is still owed every matching VAA of a burst
		sl := subs[rng.Intn(nSubs)]
		sl.st.mu.Lock()
		sl.st.delay = time.Duration(100+rng.Intn(500)) * time.Microsecond
		sl.st.mu.Unlock()
		r.Count("delivery_scenarios_with_a_slow_reader", 1)
	}
	n := 5 + rng.Intn(56)
	var pubs [][]byte
	var ems []emitter
	for i := 0; i < n; i++ {
		e := universe[rng.Intn(len(universe))]
		b := mkVAA(rng, e, uint64(idx)*1000+uint64(i))
		if blocked, err := publishWD(srv, b, 10*time.Second); blocked || err != nil {
			r.Violation("delivery:publish-failed-with-reading-subscribers", map[string]interface{}{"blocked": blocked, "err": fmt.Sprint(err), "subscribers": describe(subs)})
			return
		}
		pubs = append(pubs, b)
		ems = append(ems, e)
		r.Count("publishes", 1)
	}
	checkDelivery("delivery", subs, pubs, ems, nil, nil)
	for _, s := range subs {
		s.st.cancel()
	}
	for _, s := range subs {
		select {
		case <-s.done:
		case <-time.After(10 * time.Second):
			r.Violation("delivery:subscription-does-not-end-on-cancel", map[string]interface{}{"subscribers": describe(subs)})
			return
		}
	}
	if !waitSubs(srv, 0) {
		r.Violation("delivery:cancelled-subscriptions-not-removed", map[string]interface{}{"remaining": srv.VerifSubscriptionCount()})
	}
	r.Count("scenarios", 1)
	r.Distinct("scenarios_distinct", fmt.Sprintf("delivery/%v/%d", describe(subs), n))
	if idx < 2 {
		r.Sample(map[string]interface{}{"kind": "delivery", "subscribers": describe(subs), "published": n})
	}
}

func independenceScenario(seed int64, idx int, variant string) {
	rng := rand.New(rand.NewSource(seed))
	srv := spy.VerifNewSpyServer(zap.NewNop())
	nSubs := 2 + rng.Intn(5)
	var subs []*sub
	for i := 0; i < nSubs; i++ {
		nf := rng.Intn(3)
		if i == 0 && variant == "disconnect-while-backlogged" {
			nf = 2
		}
		subs = append(subs, subscribe(srv, rng, nf))
	}
	victim := subs[0]
	if variant == "disconnect-while-backlogged" {
		victim.filters[1] = victim.filters[0]
		// re-subscribe with the repeated filter
		victim.st.cancel()
		<-victim.done
		s := &sub{done: make(chan error, 1), filters: victim.filters}
		ctx, cancel := context.WithCancel(context.Background())
		s.st = &stream{ctx: ctx, cancel: cancel}
		req := &spyv1.SubscribeSignedVAARequest{}
		for _, e := range s.filters {
			req.Filters = append(req.Filters, &spyv1.FilterEntry{Filter: &spyv1.FilterEntry_EmitterFilter{EmitterFilter: &spyv1.EmitterFilter{ChainId: publicrpcv1.ChainID(e.chain), EmitterAddress: hex.EncodeToString(e.addr[:])}}})
		}
		go func() { s.done <- srv.SubscribeSignedVAA(req, s.st) }()
		subs[0], victim = s, s
	}
	if !waitSubs(srv, nSubs) {
		r.InconclusiveCase("subscriptions did not register")
		return
	}
	before := 2 + rng.Intn(10)
	after := 6 + rng.Intn(10)
	var pubs [][]byte
	var ems []emitter
	pick := func() emitter {
		if len(victim.filters) > 0 && rng.Intn(2) == 0 {
			return victim.filters[0] // keep the victim's queue busy
		}
		return universe[rng.Intn(len(universe))]
	}
	w := func(extra map[string]interface{}) map[string]interface{} {
		m := map[string]interface{}{"variant": variant, "subscribers": describe(subs), "victim": 0, "published_before_event": before}
		for k, v := range extra {
			m[k] = v
		}
		return m
	}
	for i := 0; i < before; i++ {
		e := pick()
		b := mkVAA(rng, e, uint64(idx)*1000+uint64(i))
		if blocked, _ := publishWD(srv, b, 10*time.Second); blocked {
			r.Violation("independence:publish-blocked-before-any-fault", w(nil))
			return
		}
		pubs, ems = append(pubs, b), append(ems, e)
	}
	// ---- the fault
	gate := make(chan struct{})
	switch variant {
	case "stall-forever":
		victim.st.mu.Lock()
		victim.st.gate = gate
		victim.st.mu.Unlock()
	case "disconnect-clean":
		// wait until the victim has drained its queue, then disconnect
		checkDelivery("independence-pre", []*sub{victim}, pubs, ems, nil, nil)
		victim.st.cancel()
		select {
		case <-victim.done:
		case <-time.After(10 * time.Second):
			r.Violation("independence:subscription-does-not-end-on-cancel", w(nil))
			return
		}
	case "disconnect-while-backlogged":
		victim.st.mu.Lock()
		victim.st.gate = gate
		victim.st.failed = errors.New("transport is closing")
		victim.st.mu.Unlock()
	}
	r.Count("faults_injected_"+variant, 1)
	blockedAt := -1
	for i := 0; i < after; i++ {
		e := pick()
		if variant == "disconnect-while-backlogged" {
			e = victim.filters[0]
		}
		b := mkVAA(rng, e, uint64(idx)*1000+100+uint64(i))
		if variant == "disconnect-while-backlogged" && i == 2 {
			// the client goes away: context cancelled, pending Send fails
			victim.st.cancel()
			close(gate)
		}
		blocked, _ := publishWD(srv, b, 3*time.Second)
		if blocked {
			// structural witness: Publish parked in chan send inside spy.go, mutex unavailable at two instants
			c1 := srv.VerifSubscriptionCount()
			d1, parked1 := publishDump()
			time.Sleep(time.Second)
			c2 := srv.VerifSubscriptionCount()
			_, parked2 := publishDump()
			if parked1 && parked2 && c1 == -1 && c2 == -1 {
				blockedAt = i
				// can a new subscriber register? (it needs the same mutex)
				ns := subscribe(srv, rng, 0)
				time.Sleep(300 * time.Millisecond)
				registered := srv.VerifSubscriptionCount()
				_ = ns
				r.Violation("independence:publish-blocked-forever:"+variant, w(map[string]interface{}{"blocked_at_publish_after_event": i, "publish_goroutine": d1, "subscription_table_locked": true, "new_subscription_registered": registered > 0,
					"victim_in_send": victim.st.isInSend()}))
			} else {
				r.InconclusiveCase(fmt.Sprintf("Publish slow (>3s) without structural witness (parked=%v/%v lock=%d/%d)", parked1, parked2, c1, c2))
			}
			break
		}
		pubs, ems = append(pubs, b), append(ems, e)
		r.Count("publishes_after_fault", 1)
	}
	if blockedAt >= 0 {
		return
	}
	// others got everything
	checkDelivery("independence", subs, pubs, ems, map[int]bool{0: true}, map[string]interface{}{"variant": variant})
	// registration / removal still work
	ns := subscribe(srv, rng, 0)
	wantN := nSubs + 1
	if variant != "stall-forever" {
		wantN = nSubs // victim removed
		if variant == "disconnect-while-backlogged" {
			select {
			case <-victim.done:
			case <-time.After(10 * time.Second):
				r.Violation("independence:departed-subscription-never-returns", w(nil))
				return
			}
		}
	}
	if !waitSubs(srv, wantN) {
		r.Violation("independence:registration-or-removal-stuck:"+variant, w(map[string]interface{}{"subscriptions": srv.VerifSubscriptionCount(), "expected": wantN}))
	}
	if variant == "disconnect-clean" {
		// the remaining subscribers and the newcomer must keep receiving exactly what matches
		time.Sleep(5 * time.Millisecond) // let the newcomer's registration settle
		var pubs2 [][]byte
		var ems2 []emitter
		for i := 0; i < 4; i++ {
			e := universe[rng.Intn(len(universe))]
			b := mkVAA(rng, e, uint64(idx)*1000+500+uint64(i))
			if blocked, _ := publishWD(srv, b, 5*time.Second); blocked {
				break
			}
			pubs2, ems2 = append(pubs2, b), append(ems2, e)
		}
		checkDelivery("independence-after-resubscribe", subs, append(append([][]byte{}, pubs...), pubs2...), append(append([]emitter{}, ems...), ems2...), map[int]bool{0: true}, map[string]interface{}{"variant": variant})
		checkDelivery("independence-newcomer", []*sub{ns}, pubs2, ems2, nil, map[string]interface{}{"variant": variant})
	}
	ns.st.cancel()
	for _, s := range subs[1:] {
		s.st.cancel()
	}
	r.Count("scenarios", 1)
	r.Count("independence_scenarios_completed", 1)
	r.Distinct("scenarios_distinct", fmt.Sprintf("independence/%s/%v/%d/%d", variant, describe(subs), before, after))
}

func main() {
	r = vlib.Start("C20", "exploration")
	rng := r.Rand("scenarios")
	for c := 0; c < 4; c++ {
		for a := 0; a < 3; a++ {
			e := emitter{chain: []uint16{2, 4, 255, 10}[c]}
			e.addr[31] = byte(a + 1) // the same three addresses exist on every chain (bridges are deployed at one address on several chains)
			e.addr[12], e.addr[13], e.addr[20] = 0xab, 0xcd, 0xef // hex letters: their spelling has a case
			universe = append(universe, e)
		}
	}
	nD := r.Pick(300, 8000)
	for i := 0; i < nD; i++ {
		deliveryScenario(rng, i)
	}
	for i := 0; i < r.Pick(24, 400); i++ {
		degenerateFilters(rng, nD+100000+i)
	}
	nI := r.Pick(18, 240)
	variants := []string{"stall-forever", "disconnect-clean", "disconnect-while-backlogged"}
	var wg sync.WaitGroup
	sem := make(chan struct{}, 12)
	for i := 0; i < nI; i++ {
		wg.Add(1)
		sem <- struct{}{}
		go func(i int) {
			defer wg.Done()
			defer func() { <-sem }()
			independenceScenario(r.Seed*1000+int64(i), nD+i, variants[i%3])
		}(i)
	}
	wg.Wait()
	r.Count("evaluations", r.GetCount("scenarios")+r.GetCount("faults_injected_stall-forever")+r.GetCount("faults_injected_disconnect-clean")+r.GetCount("faults_injected_disconnect-while-backlogged"))
	if r.GetCount("deliveries_checked") == 0 || r.GetCount("faults_injected_stall-forever") == 0 {
		r.Inconclusive("nothing observed")
	}
	r.Assume("decodable VAAs with non-empty payload; a blocked Publish is reported only with the structural witness (goroutine parked in chan send inside spy.go, subscription mutex unavailable at two instants 1 s apart)")
	r.Finish("evaluations", "scenarios_distinct", "delivery: 1-8 subscribers x 0-3 filters (with repeated filters) x 5-60 VAAs from a 4 chains x 3 addresses emitter universe (every address exists on every chain), received sequence = matching published VAAs in order; independence: one subscriber stalls in Send forever / disconnects cleanly / disconnects with a backlog at a generated point, afterwards every Publish must return, the others receive everything, subscriptions register and are removed; distinct non-trivial = distinct (kind, subscriber/filter layout, stream length)", 50)
}
