// C01 - only quorum-signed, verifiable VAAs are ever stored or broadcast.
// Direct mode: generated hostile scenarios against the real handlers, every step judged.
// Run mode: a subset through the real Processor.Run loop (own loop-back racing for real, -race).
package main

import (
	"fmt"

	"verif/harness/node/internal/proc"
	"verif/harness/node/internal/vlib"
)

func main() {
	r := vlib.Start("C01", "exploration")
	rng := r.Rand("scenarios")
	store, cleanup, err := proc.OpenScratchDB()
	if err != nil {
		r.Inconclusive("store: " + err.Error())
		r.Finish("scenarios", "configs", "", 1)
	}
	defer cleanup()
	sizes := []int{1, 2, 3, 4, 7, 13, 19}
	if !r.Quick() {
		sizes = nil
		for n := 1; n <= 19; n++ {
			sizes = append(sizes, n)
		}
	}
	nDirect := r.Pick(500, 8000)
	nRun := r.Pick(60, 600)
	serial := uint64(r.Seed&0xffff) << 24
	restarts := true // direct mode only: the Run loop of run mode lives as long as its process
	gen := func(i int) *proc.Scenario {
		n := sizes[i%len(sizes)]
		pos := (i/len(sizes))%(n+1) - 1 // -1 (not a member), 0..n-1
		return proc.Gen(rng, proc.GenOpts{N: n, NodePos: pos, NSets: 1 + rng.Intn(3), NMsgs: 1 + rng.Intn(4), Serial: serial + uint64(i), Hostile: true, SetMoves: true, Restarts: restarts})
	}
	for i := 0; i < nDirect; i++ {
		sc := gen(i)
		rig, err := proc.New(proc.Options{Key: vlib.Key(proc.NodeKey), DB: store})
		if err != nil {
			r.InconclusiveCase("rig: " + err.Error())
			break
		}
		md := proc.NewModel()
		proc.RunDirect(rig, sc, md, func(rec *proc.StepRecord) {
			r.Count("events", 1)
			r.Count("events_"+rec.Event.Kind+"_"+rec.Event.Variant, 1)
			if rec.Event.Kind == "restart" {
				r.Count("process_restarts_in_scenarios", 1)
			}
			for _, o := range rec.Out {
				if o.Kind == "vaa" {
					r.Count("quorum_vaas_broadcast_checked", 1)
				}
			}
			for id, a := range rec.StoreAfter {
				if b, ok := rec.StoreBefore[id]; !ok || string(a) != string(b) {
					r.Count("store_changes_checked", 1)
					r.Count("store_changes_via_"+rec.Event.Kind, 1)
				}
			}
			if rec.Event.Kind == "inbound" && rec.Expect.InboundOK {
				r.Count("inbound_valid_offered", 1)
			}
			for _, f := range proc.Judge(sc, md, rec) {
				if f.Prop == "C01" || f.Prop == "C13" {
					cls := f.Class
					if f.Prop == "C13" {
						cls = "handler-" + cls
					}
					r.Violation(cls, f.Witness)
				}
			}
		})
		rig.Close()
		r.Count("scenarios", 1)
		r.Count("scenarios_direct", 1)
		r.Distinct("configs", fmt.Sprintf("n=%d/pos=%d/sets=%d", len(sc.Sets[0].Pool), sc.Sets[0].Pos(proc.NodeKey), len(sc.Sets)))
		r.Distinct("orders", sc.OrderHash())
		if i < 2 {
			r.Sample(sc.Describe())
		}
	}
	// run mode
	restarts = false
	for i := 0; i < nRun; i++ {
		sc := gen(nDirect + i)
		rig, err := proc.New(proc.Options{Key: vlib.Key(proc.NodeKey), DB: store, Run: true})
		if err != nil {
			r.InconclusiveCase("rig: " + err.Error())
			break
		}
		md := proc.NewModel()
		err = proc.RunLoop(rig, sc, md, func(rec *proc.StepRecord) {
			r.Count("events", 1)
			r.Count("run_mode_events", 1)
			for _, o := range rec.Out {
				if o.Kind == "vaa" {
					r.Count("quorum_vaas_broadcast_checked", 1)
					r.Count("run_mode_vaas_checked", 1)
				}
			}
			for _, f := range proc.JudgeLoose(sc, md, rec) {
				r.Violation("run-mode:"+f.Class, f.Witness)
			}
		})
		select {
		case e := <-rig.RunErr:
			r.Violation("run-mode:processor-loop-exited", map[string]interface{}{"err": fmt.Sprint(e), "scenario": sc.Describe()})
		default:
		}
		if err != nil {
			r.InconclusiveCase("run mode: " + err.Error())
		}
		rig.Close()
		r.Count("scenarios", 1)
		r.Count("scenarios_run_mode", 1)
		r.Distinct("configs", fmt.Sprintf("run/n=%d/pos=%d/sets=%d", len(sc.Sets[0].Pool), sc.Sets[0].Pos(proc.NodeKey), len(sc.Sets)))
	}
	if r.GetCount("quorum_vaas_broadcast_checked") == 0 || r.GetCount("store_changes_via_inbound") == 0 {
		r.Inconclusive("no quorum VAA / no inbound store was ever observed")
	}
	r.Assume("guardian sets have distinct keys", "secp256k1 recovery and Keccak shared with the code under test; wire decoder and quorum predicate are the harness' own")
	r.Finish("scenarios", "configs", "generated scenarios: set size n, node key at every position or absent, 1-3 successive sets (disjoint/overlapping/reordered), 1-4 messages, valid/duplicate/forged/mis-addressed/non-member/other-set/other-digest/malformed observations, inbound VAAs (valid, previous set, quorum-1, unordered, repeated index, bad signature, other subset, other set), set updates anywhere; every broadcast and every store change is validated; distinct non-trivial = distinct (mode, n, node position, number of sets)", 20)
}
