// C10 - EVM messages reach the signer only from the core contract and when final.
// The real ethereum.Watcher (both confirmation modes) runs in child processes against a fake
// JSON-RPC node served by go-ethereum's own rpc.Server over a loop-back WebSocket. Safety is
// judged from what the simulator actually served before each message arrived; "forwarded exactly
// once however far the head jumps" is judged after quiescence.
package main

import (
	"flag"
	"fmt"
	"math/big"
	"math/rand"
	"os"
	"sync/atomic"
	"time"

	ethcommon "github.com/ethereum/go-ethereum/common"
	"verif/harness/node/internal/evmsim"
	"verif/harness/node/internal/vlib"
)

var (
	mode   = flag.String("mode", "parent", "parent|child")
	cseed  = flag.Int64("cseed", 0, "child seed")
	ccount = flag.Int("ccount", 0, "scripts per child")
)

var jumps = []uint64{1, 2, 31, 59, 60, 61, 200, 10000}

type expectation struct {
	tx    *evmsim.Tx
	log   *evmsim.LogSpec
	block *evmsim.Block // inclusion that must be delivered (nil: nothing must be delivered)
	note  string
}

func script(seed int64, idx int) {
	rng := rand.New(rand.NewSource(seed))
	contract := ethcommon.BigToAddress(big.NewInt(seed*7 + 12345))
	other := ethcommon.BigToAddress(big.NewInt(seed*7 + 999))
	sim, err := evmsim.New(contract)
	if err != nil {
		vlib.CInconclusive("sim: " + err.Error())
		return
	}
	md := []string{"eth", "bsc"}[rng.Intn(2)]
	h := evmsim.Start(sim, md, 2)
	defer h.Stop()
	desc := fmt.Sprintf("seed=%d mode=%s", seed, md)
	var trace []string
	tr := func(s string) {
		trace = append(trace, s)
		vlib.CStep(fmt.Sprintf("script %d: %s", idx, s))
	}
	if !h.WaitReady(30 * time.Second) {
		vlib.CInconclusive("watcher never subscribed: " + desc)
		return
	}
	seq := uint64(rng.Intn(1000))
	mkLog := func(kind string, cl uint8) *evmsim.LogSpec {
		seq++
		l := &evmsim.LogSpec{Address: contract, Topic0: evmsim.Topic, Sender: ethcommon.BigToAddress(big.NewInt(int64(rng.Intn(1 << 30)))), Target: uint16(rng.Intn(30)), Seq: seq, Nonce: rng.Uint32(),
			Payload: make([]byte, 1+rng.Intn(80)), CL: cl, Note: kind}
		rng.Read(l.Payload)
		switch kind {
		case "foreign-address":
			l.Address = other
		case "other-topic":
			l.Topic0 = ethcommon.HexToHash("0x1111")
		}
		return l
	}
	cls := []uint8{0, 1, 15, 200}
	var txs []*evmsim.Tx
	exp := map[ethcommon.Hash]*expectation{}
	sib := map[ethcommon.Hash]*expectation{} // second core message of the same transaction (own consistency level)
	all := func() []*expectation {
		var out []*expectation
		for _, e := range exp {
			out = append(out, e)
		}
		for _, e := range sib {
			out = append(out, e)
		}
		return out
	}
	faults := false
	restarted := false // a restart provoked by the dedicated scenario (still judged for exactly-once)
	allowFaults := rng.Intn(3) == 0
	nSteps := 5 + rng.Intn(8)
	for st := 0; st < nSteps; st++ {
		if rng.Intn(5) == 0 { // the next receipt / head requests are slow: head scans, log deliveries and re-observations overlap differently
			m := []string{"getTransactionReceipt", "getTransactionReceipt", "getBlockByNumber", "getBlockByHash"}[rng.Intn(4)]
			sim.SlowNext(m, 1+rng.Intn(3), time.Duration(20+rng.Intn(80))*time.Millisecond)
			tr("the next " + m + " call(s) are slow")
			vlib.CCount("slow_calls_injected", 1)
		}
		switch x := rng.Intn(20); {
		case x < 8: // a transaction is mined in the next block; the head moves on by a jump
			kind := []string{"core", "core", "core", "foreign-address", "other-topic", "failed-tx"}[rng.Intn(6)]
			cl := cls[rng.Intn(len(cls))]
			jump := jumps[rng.Intn(len(jumps))]
			var tx *evmsim.Tx
			var blk *evmsim.Block
			sim.Mutate("mine", func(s *evmsim.Sim) {
				var hb [32]byte
				rng.Read(hb[:])
				tx = &evmsim.Tx{Hash: ethcommon.Hash(hb), Status: 1, Note: kind}
				lk := kind
				if kind == "failed-tx" {
					tx.Status = 0
					lk = "core"
				}
				tx.Logs = []*evmsim.LogSpec{mkLog(lk, cl)}
				switch rng.Intn(4) {
				case 0: // a second log of another address with the same topic in the same tx
					tx.Logs = append(tx.Logs, mkLog("foreign-address", cl))
				case 1: // the transaction publishes two messages, the second with a consistency level of its own
					if kind == "core" {
						tx.Logs = append(tx.Logs, mkLog("core", cls[rng.Intn(len(cls))]))
					}
				}
				n := s.Head + 1
				blk = s.Include(tx, n)
				s.AdvanceHead(n)
			})
			txs = append(txs, tx)
			if kind == "core" {
				exp[tx.Hash] = &expectation{tx: tx, log: tx.Logs[0], block: blk, note: fmt.Sprintf("cl=%d then head +%d", cl, jump)}
				if len(tx.Logs) == 2 && tx.Logs[1].Note == "core" {
					sib[tx.Hash] = &expectation{tx: tx, log: tx.Logs[1], block: blk, note: fmt.Sprintf("second message of the transaction, cl=%d", tx.Logs[1].CL)}
					vlib.CCount("transactions_with_two_messages", 1)
				}
			}
			tr(fmt.Sprintf("mine %s tx=%x cl=%d in block %d", kind, tx.Hash[:4], cl, blk.Number))
			vlib.CCount("txs_"+kind, 1)
			h.Quiesce(3, 20*time.Second)
			if kind == "core" && rng.Intn(2) == 0 {
				// re-observed while the head is at the message's block but (in confirmation mode) not deep enough yet
				tr(fmt.Sprintf("reobserve tx=%x (head at its block)", tx.Hash[:4]))
				if !h.Reobserve(tx.Hash, 25*time.Second) {
					vlib.CFinding("reobserve:request-not-handled-within-watchdog", map[string]interface{}{"script": desc, "trace": trace})
					return
				}
				vlib.CCount("reobservation_requests", 1)
			}
			// now the head jumps
			need := uint64(0)
			if md == "bsc" {
				need = uint64(cl)
			}
			target := blk.Number + need + jump - 1
			if rng.Intn(3) == 0 {
				target = blk.Number + jump // may stop short of the required depth
			}
			sim.Mutate("advance", func(s *evmsim.Sim) { s.AdvanceHead(target) })
			tr(fmt.Sprintf("head jumps to %d (block %d + %d)", target, blk.Number, target-blk.Number))
			vlib.CDistinct("head_jumps", fmt.Sprintf("%s/jump=%d/cl=%d", md, jump, cl))
			if kind == "failed-tx" { // deep by now: a re-observation request for the failed transaction must yield nothing
				h.Quiesce(2, 20*time.Second)
				sim.Mutate("advance", func(s *evmsim.Sim) { s.AdvanceHead(blk.Number + 300) })
				h.Quiesce(2, 20*time.Second)
				tr(fmt.Sprintf("head +300; reobserve the failed tx=%x", tx.Hash[:4]))
				if !h.Reobserve(tx.Hash, 25*time.Second) {
					vlib.CFinding("reobserve:request-not-handled-within-watchdog", map[string]interface{}{"script": desc, "trace": trace})
					return
				}
				vlib.CCount("reobservation_requests", 1)
				vlib.CCount("failed_transactions_reobserved", 1)
			}
		case x == 11 && !allowFaults: // the node fails three head polls in a row while a message is pending: the watcher restarts; the message must still be forwarded
			cl := uint8(15)
			var tx *evmsim.Tx
			var blk *evmsim.Block
			sim.Mutate("mine-pending", func(s *evmsim.Sim) {
				var hb [32]byte
				rng.Read(hb[:])
				tx = &evmsim.Tx{Hash: ethcommon.Hash(hb), Status: 1, Note: "core", Logs: []*evmsim.LogSpec{mkLog("core", cl)}}
				if md == "bsc" {
					blk = s.Include(tx, s.Head+1)
					s.AdvanceHead(blk.Number) // pending: 15 confirmations to go
				} else {
					blk = s.Include(tx, s.Head+3) // pending: not yet at the served (finalized) head
				}
			})
			txs = append(txs, tx)
			exp[tx.Hash] = &expectation{tx: tx, log: tx.Logs[0], block: blk, note: "pending across a watcher restart caused by three failed head polls"}
			h.Quiesce(2, 20*time.Second)
			exits := atomicLoad(&h.RunExits)
			sim.WithLock(func() {
				base := sim.CountLocked("getBlockByNumber")
				sim.Faults["getBlockByNumber"] = map[int]string{}
				for i := 1; i <= 3; i++ {
					sim.Faults["getBlockByNumber"][base+i] = "error"
				}
			})
			tr(fmt.Sprintf("mine core tx=%x (pending in block %d); the next three head polls fail -> watcher restart", tx.Hash[:4], blk.Number))
			vlib.CCount("restart_with_pending_scenarios", 1)
			// wait for the restart (bounded) and for the new run to subscribe again
			dl := time.Now().Add(20 * time.Second)
			for time.Now().Before(dl) && (atomicLoad(&h.RunExits) == exits || sim.Subscribers() == 0) {
				time.Sleep(5 * time.Millisecond)
			}
			sim.WithLock(func() { delete(sim.Faults, "getBlockByNumber") })
			if atomicLoad(&h.RunExits) == exits {
				vlib.CCount("restart_not_provoked", 1)
			}
			restarted = true
			for i := 0; i < 20; i++ {
				sim.Mutate("advance", func(s *evmsim.Sim) { s.AdvanceHead(s.Head + 1) })
				h.Quiesce(2, 20*time.Second)
			}
			tr("head advances 20 times by 1")
			// bounded progress: 20 head advances are more than the 15 confirmations (or the 3 blocks) it was short of
			got := 0
			for _, a := range h.ArrivalsCopy() {
				if a.Msg.TxHash == tx.Hash {
					got++
				}
			}
			if got == 0 {
				vlib.CFinding("pending-message-not-forwarded-after-watcher-restart-although-depth-reached", map[string]interface{}{"script": desc, "trace": trace, "pending_now": h.W.VerifPendingCount(),
					"head_polls_since_restart": "none while idle (see trace)", "tx": fmt.Sprintf("%x", tx.Hash[:4])})
			}
		case x == 10 && !allowFaults && len(txs) > 0: // a deep reorg re-mines an old transaction; the first lookup for the new inclusion fails transiently
			tx := txs[rng.Intn(len(txs))]
			if tx.Block == nil || tx.Status != 1 || exp[tx.Hash] == nil {
				break
			}
			sim.Mutate("advance", func(s *evmsim.Sim) { s.AdvanceHead(s.Head + 150) })
			h.Quiesce(2, 20*time.Second)
			k := 1 + rng.Intn(2)
			var nb *evmsim.Block
			sim.Mutate("deep-reorg", func(s *evmsim.Sim) {
				base := s.CountLocked("getTransactionReceipt")
				s.Faults["getTransactionReceipt"] = map[int]string{}
				for i := 1; i <= k; i++ {
					s.Faults["getTransactionReceipt"][base+i] = faultWording(rng)
				}
				_, nb = s.ReplaceBlock(tx.Block.Number, true)
			})
			for _, e := range all() {
				if e.tx.Block == nil {
					e.block = nil
				} else if e.tx.Block != e.block {
					e.block = e.tx.Block
				}
			}
			tr(fmt.Sprintf("head +150, then block %d is replaced (tx moved) and the next %d receipt lookups fail transiently; heads +1 x%d", nb.Number, k, k+3))
			vlib.CCount("deep_reorg_with_transient_failure", 1)
			vlib.CCount("reorgs", 1)
			for i := 0; i < k+3; i++ {
				h.Quiesce(2, 20*time.Second)
				sim.Mutate("advance", func(s *evmsim.Sim) { s.AdvanceHead(s.Head + 1) })
			}
			sim.WithLock(func() { delete(sim.Faults, "getTransactionReceipt") })
		case x == 12 && !allowFaults: // a pending transaction is re-mined in a LATER block (the removed log and the new log arrive in either order); heads then approach the depth of the old inclusion
			cl := []uint8{1, 15, 15, 200}[rng.Intn(4)]
			var tx *evmsim.Tx
			var blk, nb *evmsim.Block
			d := uint64(1 + rng.Intn(4))
			newFirst := rng.Intn(2) == 0
			sim.Mutate("mine", func(s *evmsim.Sim) {
				var hb [32]byte
				rng.Read(hb[:])
				tx = &evmsim.Tx{Hash: ethcommon.Hash(hb), Status: 1, Note: "core"}
				tx.Logs = []*evmsim.LogSpec{mkLog("core", cl)}
				if md == "bsc" {
					blk = s.Include(tx, s.Head+1)
					s.AdvanceHead(blk.Number) // pending: waits for its confirmations
				} else {
					blk = s.Include(tx, s.Head+2) // pending: above the served (finalized) head
				}
			})
			txs = append(txs, tx)
			e := &expectation{tx: tx, log: tx.Logs[0], block: blk, note: fmt.Sprintf("cl=%d re-mined %d blocks later", cl, d)}
			exp[tx.Hash] = e
			tr(fmt.Sprintf("mine core tx=%x cl=%d in block %d (pending)", tx.Hash[:4], cl, blk.Number))
			vlib.CCount("txs_core", 1)
			h.Quiesce(3, 20*time.Second)
			sim.Mutate("remine-later", func(s *evmsim.Sim) { _, nb = s.RemineLater(tx, d, newFirst) })
			for _, x := range all() {
				if x.tx.Block == nil {
					x.block = nil
				} else if x.tx.Block != x.block {
					x.block = x.tx.Block
				}
			}
			tr(fmt.Sprintf("reorg: tx=%x leaves block %d and is re-mined in block %d; new log first=%v", tx.Hash[:4], blk.Number, nb.Number, newFirst))
			vlib.CCount("remined_in_later_block", 1)
			vlib.CCount("reorgs", 1)
			h.Quiesce(3, 20*time.Second)
			// heads one by one up to the depth the OLD inclusion would have needed, then on to the new one's and beyond
			need := uint64(1)
			if md == "bsc" {
				need = uint64(cl)
				if need < 15 {
					need = 15
				}
			}
			steps := int(need) + int(d) + 3
			if steps > 40 {
				sim.Mutate("advance", func(s *evmsim.Sim) { s.AdvanceHead(blk.Number + need - 2) })
				h.Quiesce(2, 20*time.Second)
				steps = int(d) + 6
			}
			for i := 0; i < steps; i++ {
				sim.Mutate("advance", func(s *evmsim.Sim) { s.AdvanceHead(s.Head + 1) })
				h.Quiesce(2, 20*time.Second)
			}
		case x == 13 && rng.Intn(2) == 0: // one transaction, two messages with consistency levels 1 and 200; re-observed while the head is between the two depths
			var tx *evmsim.Tx
			var blk *evmsim.Block
			sim.Mutate("mine-two-levels", func(s *evmsim.Sim) {
				var hb [32]byte
				rng.Read(hb[:])
				tx = &evmsim.Tx{Hash: ethcommon.Hash(hb), Status: 1, Note: "core"}
				tx.Logs = []*evmsim.LogSpec{mkLog("core", 1), mkLog("core", 200)}
				if rng.Intn(2) == 0 {
					tx.Logs[0], tx.Logs[1] = tx.Logs[1], tx.Logs[0]
				}
				blk = s.Include(tx, s.Head+1)
				s.AdvanceHead(blk.Number + 20 + uint64(rng.Intn(100)))
			})
			txs = append(txs, tx)
			exp[tx.Hash] = &expectation{tx: tx, log: tx.Logs[0], block: blk, note: fmt.Sprintf("first of two messages, cl=%d", tx.Logs[0].CL)}
			sib[tx.Hash] = &expectation{tx: tx, log: tx.Logs[1], block: blk, note: fmt.Sprintf("second of two messages, cl=%d", tx.Logs[1].CL)}
			tr(fmt.Sprintf("mine tx=%x with two messages (cl %d and %d) in block %d; head between the two depths; reobserve", tx.Hash[:4], tx.Logs[0].CL, tx.Logs[1].CL, blk.Number))
			vlib.CCount("transactions_with_two_messages", 1)
			vlib.CCount("txs_core", 1)
			h.Quiesce(3, 20*time.Second)
			if !h.Reobserve(tx.Hash, 25*time.Second) {
				vlib.CFinding("reobserve:request-not-handled-within-watchdog", map[string]interface{}{"script": desc, "trace": trace})
				return
			}
			vlib.CCount("reobservation_requests", 1)
			vlib.CCount("reobserved_between_two_depths", 1)
		case x == 14 && !allowFaults && rng.Intn(2) == 0: // re-observation of a not-yet-deep transaction; right after the receipt answer the chain reorganises the tx away and the head jumps
			cl := []uint8{1, 15, 200}[rng.Intn(3)]
			var tx *evmsim.Tx
			var blk *evmsim.Block
			armed := true
			sim.Mutate("mine-for-racing-reobservation", func(s *evmsim.Sim) {
				var hb [32]byte
				rng.Read(hb[:])
				tx = &evmsim.Tx{Hash: ethcommon.Hash(hb), Status: 1, Note: "core", Logs: []*evmsim.LogSpec{mkLog("core", cl)}}
				if md == "bsc" {
					blk = s.Include(tx, s.Head+1)
					s.AdvanceHead(blk.Number)
				} else {
					blk = s.Include(tx, s.Head+2)
				}
				s.AfterReceipt = func(s *evmsim.Sim, h ethcommon.Hash) {
					if armed && h == tx.Hash && s.ReobserveWindow {
						armed = false
						s.Version++
						s.ReplaceBlock(blk.Number, false) // the transaction is gone from the canonical chain
						s.Head = blk.Number + 300
					}
				}
			})
			txs = append(txs, tx)
			e := &expectation{tx: tx, log: tx.Logs[0], block: blk, note: fmt.Sprintf("cl=%d, orphaned right after the receipt answer of a re-observation, head +300", cl)}
			exp[tx.Hash] = e
			tr(fmt.Sprintf("mine core tx=%x cl=%d in block %d (not deep enough); reobserve; right after the receipt answer the block is replaced without the tx and the head jumps by 300", tx.Hash[:4], cl, blk.Number))
			vlib.CCount("txs_core", 1)
			h.Quiesce(2, 20*time.Second)
			sim.WithLock(func() { sim.ReobserveWindow = true })
			ok := h.Reobserve(tx.Hash, 25*time.Second)
			sim.WithLock(func() { sim.ReobserveWindow = false; sim.AfterReceipt = nil })
			if !ok {
				vlib.CFinding("reobserve:request-not-handled-within-watchdog", map[string]interface{}{"script": desc, "trace": trace})
				return
			}
			for _, x := range all() {
				if x.tx.Block == nil {
					x.block = nil
				} else if x.tx.Block != x.block {
					x.block = x.tx.Block
				}
			}
			vlib.CCount("reobservation_requests", 1)
			vlib.CCount("reorg_right_after_receipt_answer", 1)
			vlib.CCount("reorgs", 1)
		case x == 15 && !allowFaults && rng.Intn(2) == 0: // a new message arrives just as the head loop finds nothing left to confirm (the watcher pauses at its log lines)
			h.SetLogDelay(0.6, 6*time.Millisecond, "processed new header")
			for rep := 0; rep < 3; rep++ {
				var txA, txB *evmsim.Tx
				var blkA, blkB *evmsim.Block
				sim.Mutate("mine-A", func(s *evmsim.Sim) {
					var hb [32]byte
					rng.Read(hb[:])
					txA = &evmsim.Tx{Hash: ethcommon.Hash(hb), Status: 1, Note: "core", Logs: []*evmsim.LogSpec{mkLog("core", 1)}}
					if md == "bsc" {
						blkA = s.Include(txA, s.Head+1)
						s.AdvanceHead(blkA.Number)
					} else {
						blkA = s.Include(txA, s.Head+1)
					}
				})
				txs = append(txs, txA)
				exp[txA.Hash] = &expectation{tx: txA, log: txA.Logs[0], block: blkA, note: "A: becomes final just before B's log arrives"}
				h.Quiesce(2, 20*time.Second)
				sim.Mutate("finalize-A", func(s *evmsim.Sim) {
					if md == "bsc" {
						s.AdvanceHead(blkA.Number + 15)
					} else {
						s.AdvanceHead(blkA.Number)
					}
				})
				time.Sleep(time.Duration(1+rng.Intn(6)) * time.Millisecond)
				sim.Mutate("mine-B", func(s *evmsim.Sim) {
					var hb [32]byte
					rng.Read(hb[:])
					txB = &evmsim.Tx{Hash: ethcommon.Hash(hb), Status: 1, Note: "core", Logs: []*evmsim.LogSpec{mkLog("core", 1)}}
					blkB = s.Include(txB, s.Head+1)
					if md == "bsc" {
						s.AdvanceHead(blkB.Number)
					}
				})
				txs = append(txs, txB)
				exp[txB.Hash] = &expectation{tx: txB, log: txB.Logs[0], block: blkB, note: "B: its log arrives while the head loop is going idle after A"}
				vlib.CCount("txs_core", 2)
				vlib.CCount("log_arriving_while_head_loop_goes_idle", 1)
				h.Quiesce(3, 20*time.Second)
				// bounded progress on a quiet chain: B reaches its depth and nothing else happens - it must come out
				sim.Mutate("finalize-B", func(s *evmsim.Sim) {
					if md == "bsc" {
						s.AdvanceHead(blkB.Number + 15)
					} else {
						s.AdvanceHead(blkB.Number)
					}
				})
				got := false
				for i := 0; i < 400 && !got; i++ { // up to 4 s; the poll interval is 2 ms
					time.Sleep(10 * time.Millisecond)
					for _, a := range h.ArrivalsCopy() {
						if a.Msg.TxHash == txB.Hash {
							got = true
						}
					}
				}
				if !got {
					vlib.CFinding("pending-message-not-forwarded-on-a-quiet-chain-although-depth-reached", map[string]interface{}{"script": desc, "trace": trace, "tx": fmt.Sprintf("%x", txB.Hash[:4]), "block": blkB.Number,
						"pending_entries": h.W.VerifPendingCount(), "note": "its log arrived while the head loop was going idle after the previous message; no further event for 4 s"})
					break
				}
			}
			h.SetLogDelay(0, 0, "")
			tr("3x: A becomes final, a few ms later B is mined (the watcher pauses up to 6 ms at its 'processed new header' log line)")
		case x == 9: // mined but not yet at the depth the watcher reads (e.g. not finalized): re-observed right away
			ahead := uint64(1 + rng.Intn(5))
			cl := cls[rng.Intn(len(cls))]
			var tx *evmsim.Tx
			var blk *evmsim.Block
			sim.Mutate("mine-ahead", func(s *evmsim.Sim) {
				var hb [32]byte
				rng.Read(hb[:])
				tx = &evmsim.Tx{Hash: ethcommon.Hash(hb), Status: 1, Note: "core", Logs: []*evmsim.LogSpec{mkLog("core", cl)}}
				blk = s.Include(tx, s.Head+ahead) // the served head stays behind
				if rng.Intn(3) != 0 { // one head poll (seldom two) fails the way a node does that has no checkpoint at hand
					base := s.CountLocked("getBlockByNumber")
					if s.Faults["getBlockByNumber"] == nil {
						s.Faults["getBlockByNumber"] = map[int]string{}
					}
					for i := 1; i <= 1+rng.Intn(5)/4; i++ {
						s.Faults["getBlockByNumber"][base+i] = "block-not-found"
					}
					vlib.CCount("head_polls_failing_with_block_not_found", 1)
				}
			})
			txs = append(txs, tx)
			exp[tx.Hash] = &expectation{tx: tx, log: tx.Logs[0], block: blk, note: fmt.Sprintf("cl=%d, mined %d blocks ahead of the served head", cl, ahead)}
			tr(fmt.Sprintf("mine core tx=%x cl=%d in block %d, %d ahead of the served head; reobserve it at once", tx.Hash[:4], cl, blk.Number, ahead))
			vlib.CCount("mined_ahead_of_head", 1)
			h.Quiesce(2, 20*time.Second)
			if !h.Reobserve(tx.Hash, 25*time.Second) {
				vlib.CFinding("reobserve:request-not-handled-within-watchdog", map[string]interface{}{"script": desc, "trace": trace})
				return
			}
			vlib.CCount("reobservation_requests", 1)
		case (x == 8 || x == 18) && !allowFaults: // the receipt lookup fails transiently a few times, heads keep coming one by one
			cl := []uint8{0, 1, 100, 200}[rng.Intn(4)]
			k := 1 + rng.Intn(3)
			var tx *evmsim.Tx
			var blk *evmsim.Block
			sim.Mutate("mine-flaky", func(s *evmsim.Sim) {
				var hb [32]byte
				rng.Read(hb[:])
				tx = &evmsim.Tx{Hash: ethcommon.Hash(hb), Status: 1, Note: "core", Logs: []*evmsim.LogSpec{mkLog("core", cl)}}
				blk = s.Include(tx, s.Head+1)
				s.AdvanceHead(blk.Number)
			})
			// walk the head to just below the required depth first (no lookup happens before it is reached)
			if need := uint64(cl); md == "bsc" && need > 1 {
				h.Quiesce(2, 20*time.Second)
				sim.Mutate("advance", func(s *evmsim.Sim) { s.AdvanceHead(blk.Number + need - 1) })
				h.Quiesce(2, 20*time.Second)
			}
			sim.WithLock(func() {
				base := sim.CountLocked("getTransactionReceipt")
				sim.Faults["getTransactionReceipt"] = map[int]string{}
				for i := 1; i <= k; i++ {
					sim.Faults["getTransactionReceipt"][base+i] = faultWording(rng)
				}
			})
			txs = append(txs, tx)
			exp[tx.Hash] = &expectation{tx: tx, log: tx.Logs[0], block: blk, note: fmt.Sprintf("cl=%d, next %d receipt lookups fail transiently, heads +1 each", cl, k)}
			tr(fmt.Sprintf("mine core tx=%x cl=%d in block %d; the next %d receipt lookups return an RPC error", tx.Hash[:4], cl, blk.Number, k))
			vlib.CCount("transient_receipt_failure_scenarios", 1)
			for i := 0; i < k+3; i++ {
				h.Quiesce(2, 20*time.Second)
				sim.Mutate("advance", func(s *evmsim.Sim) { s.AdvanceHead(s.Head + 1) })
			}
			tr(fmt.Sprintf("head advances %d times by 1", k+3))
			sim.WithLock(func() { delete(sim.Faults, "getTransactionReceipt") })
		case x < 11:
			k := []uint64{0, 1, 2, 5, 61, 300}[rng.Intn(6)]
			sim.Mutate("advance", func(s *evmsim.Sim) { s.AdvanceHead(s.Head + k) })
			tr(fmt.Sprintf("head advances by %d", k))
		case x < 14 && len(txs) > 0: // reorg replacing the block of a recent transaction
			tx := txs[len(txs)-1-rng.Intn(minInt(3, len(txs)))]
			move := rng.Intn(2) == 0
			var nb *evmsim.Block
			did := false
			sim.Mutate("reorg", func(s *evmsim.Sim) {
				if tx.Block == nil {
					return
				}
				did = true
				_, nb = s.ReplaceBlock(tx.Block.Number, move)
			})
			if did {
				for _, e := range all() {
					if e.tx.Block == nil {
						e.block = nil
					} else if e.tx.Block != e.block {
						e.block = e.tx.Block
					}
				}
				tr(fmt.Sprintf("reorg: block %d replaced (variant %d), transactions moved=%v", nb.Number, nb.Variant, move))
				vlib.CCount("reorgs", 1)
			}
		case x < 17 && len(txs) > 0:
			tx := txs[rng.Intn(len(txs))]
			tr(fmt.Sprintf("reobserve tx=%x", tx.Hash[:4]))
			if !h.Reobserve(tx.Hash, 25*time.Second) {
				vlib.CFinding("reobserve:request-not-handled-within-watchdog", map[string]interface{}{"script": desc, "trace": trace})
				return
			}
			vlib.CCount("reobservation_requests", 1)
		case !allowFaults:
			sim.Mutate("advance", func(s *evmsim.Sim) { s.AdvanceHead(s.Head + 1) })
			tr("head advances by 1")
		default:
			m := []string{"getBlockByNumber", "getBlockByHash", "getTransactionReceipt", "call"}[rng.Intn(4)]
			sim.WithLock(func() {
				if sim.Faults[m] == nil {
					sim.Faults[m] = map[int]string{}
				}
				base := sim.CountLocked(m)
				for k := 0; k < 1+rng.Intn(3); k++ {
					sim.Faults[m][base+1+k] = "error"
				}
			})
			faults = true
			tr("RPC errors on the next " + m + " calls")
			vlib.CCount("faults_injected", 1)
		}
		if !h.Quiesce(3, 30*time.Second) {
			vlib.CInconclusive(fmt.Sprintf("watcher did not quiesce after %q (%s)", trace[len(trace)-1], desc))
			return
		}
	}
	// everything gets deep enough; re-observe a few once more
	for i := 0; i < 8; i++ {
		sim.Mutate("final-advance", func(s *evmsim.Sim) { s.AdvanceHead(s.Head + 40) })
		h.Quiesce(3, 30*time.Second)
	}
	tr("head advances 8 times by 40 (final)")
	for _, f := range h.JudgeSafety(desc, trace) {
		vlib.CFinding(f.Class, f.Witness)
	}
	// ---- forwarded exactly once, however far the head jumped (scripts without injected RPC errors)
	arr := h.ArrivalsCopy()
	if !faults && (atomicLoad(&h.RunExits) == 0 || restarted) {
		for _, e := range all() {
			if e.block == nil {
				continue
			}
			n, total := 0, 0
			for _, a := range arr {
				if a.Msg.TxHash == e.tx.Hash && a.Msg.Sequence == e.log.Seq && int64(e.block.Time) == a.Msg.Timestamp.Unix() {
					total++
					if !a.Reobs {
						n++
					}
				}
			}
			// a head-scan delivery that happened to fall into a re-observation window carries the wrong tag:
			// arrivals beyond the number of re-observation requests for this tx can only come from the head scan
			if extra := total - h.ReobsCount(e.tx.Hash); extra > n {
				n = extra
			}
			vlib.CCount("final_messages_expected", 1)
			w := map[string]interface{}{"script": desc, "trace": trace, "tx": fmt.Sprintf("%x", e.tx.Hash[:4]), "block": e.block.Number, "history": e.note}
			switch n {
			case 1:
				vlib.CCount("final_messages_forwarded_once", 1)
			case 0:
				reobs := 0
				for _, a := range arr {
					if a.Reobs && a.Msg.TxHash == e.tx.Hash {
						reobs++
					}
				}
				w["forwarded_by_reobservation_only"] = reobs
				vlib.CFinding("final-message-never-forwarded-by-the-watcher", w)
			default:
				vlib.CFinding("final-message-forwarded-more-than-once", w)
			}
		}
	} else {
		vlib.CCount("scripts_with_rpc_faults", 1)
	}
	for _, a := range arr {
		if a.Reobs {
			vlib.CCount("messages_forwarded_reobserve", 1)
		} else {
			vlib.CCount("messages_forwarded_poll", 1)
		}
	}
	vlib.CCount("scripts", 1)
	vlib.CCount("rpc_calls_served", int64(len(sim.LogCopy())))
	vlib.CDistinct("scripts_distinct", fmt.Sprintf("%s/%v", desc, trace))
	if idx == 0 {
		vlib.CSample(map[string]interface{}{"script": desc, "trace": trace, "messages_forwarded": len(arr)})
	}
}

func atomicLoad(p *int32) int32 { return atomic.LoadInt32(p) }

func minInt(a, b int) int {
	if a < b {
		return a
	}
	return b
}

func main() {
	flag.Parse()
	if *mode == "child" {
		for i := 0; i < *ccount; i++ {
			script(*cseed*1000+int64(i), i)
		}
		vlib.CDone()
		return
	}
	r := vlib.Start("C10", "exploration")
	self, _ := os.Executable()
	batches, per := r.Pick(12, 160), r.Pick(4, 8)
	r.RunChildren(self, batches, per, 16, 12*time.Minute)
	r.Count("evaluations", r.GetCount("scripts"))
	if r.GetCount("messages_forwarded_poll") == 0 || r.GetCount("messages_forwarded_reobserve") == 0 || r.GetCount("reorgs") == 0 || r.GetCount("final_messages_expected") == 0 {
		r.Inconclusive("the head-scan path, the re-observation path, a reorg or the exactly-once oracle was never exercised")
	}
	r.Assume("the EVM node is simulated at the JSON-RPC boundary (eth_getBlockByNumber/Hash, eth_getTransactionReceipt, eth_call, eth_subscribe logs) with go-ethereum's own rpc.Server over a loop-back WebSocket",
		"safety is judged against what the simulator actually answered before the message arrived (highest head served, last receipt answer for the transaction)",
		"the exactly-once oracle is applied only in scripts without injected RPC errors or watcher restarts")
	r.Finish("evaluations", "scripts_distinct", "scripted histories in both confirmation modes (Ethereum/finalized/no extra confirmations, BSC/latest/consistency-level confirmations): transactions with core logs, logs of another address with the same topic, other topics, failed receipts; head jumps of {1,2,31,59,60,61,200,10000} past the required depth or short of it; stalls; one-block reorgs that move or drop the transaction; re-observation requests at every stage; RPC errors on every method; distinct non-trivial = distinct script traces", 20)
}

// faultWording picks how a transient JSON-RPC failure is worded.
func faultWording(rng *rand.Rand) string {
	return []string{"error", "error", "header-not-found", "block-not-found", "missing-trie-node"}[rng.Intn(5)]
}
