// C11 - Alephium event fields map faithfully to the attested message.
// The real conversion (ToWormholeMessage + toMessagePublication, through the verif hook), the
// exported id/address/hex converters and parseAttestToken are called on generated field values;
// expected results are derived from the generated intent, never from the code under test.
// Attestation payloads are built by the concatenation interpreted from token_bridge.ral.
package main

import (
	"bytes"
	"encoding/hex"
	"fmt"
	"math/big"
	"math/rand"
	"strings"

	sdk "github.com/alephium/go-sdk"
	"github.com/alephium/wormhole-fork/node/pkg/alephium"
	"github.com/alephium/wormhole-fork/node/pkg/common"
	"github.com/alephium/wormhole-fork/node/pkg/vaa"
	"verif/harness/node/internal/csrc"
	"verif/harness/node/internal/vlib"
)

var r *vlib.Run

func pow2(n uint) *big.Int     { return new(big.Int).Lsh(big.NewInt(1), n) }
func sub1(x *big.Int) *big.Int { return new(big.Int).Sub(x, big.NewInt(1)) }

var boundary = []*big.Int{big.NewInt(0), big.NewInt(1), big.NewInt(254), big.NewInt(255), big.NewInt(256), big.NewInt(65534), big.NewInt(65535), big.NewInt(65536),
	sub1(pow2(32)), pow2(32), sub1(pow2(64)), pow2(64), sub1(pow2(256)), big.NewInt(-1), big.NewInt(-5), big.NewInt(-256)}

type numSpec struct {
	text  string   // what the node reports
	val   *big.Int // nil: not a number
	kind  string   // U256 (normal) or a hostile shape
	class string
}

func genNum(rng *rand.Rand, max *big.Int) numSpec {
	switch x := rng.Intn(20); {
	case x < 9:
		v := boundary[rng.Intn(len(boundary))]
		return numSpec{text: v.String(), val: v, kind: "U256", class: classOf(v, max)}
	case x < 15:
		v := new(big.Int).Rand(rng, new(big.Int).Add(max, big.NewInt(1)))
		return numSpec{text: v.String(), val: v, kind: "U256", class: classOf(v, max)}
	case x == 15:
		v := new(big.Int).Rand(rng, pow2(256))
		return numSpec{text: v.String(), val: v, kind: "U256", class: classOf(v, max)}
	case x == 16:
		return numSpec{text: []string{"", "abc", "0x10", "1e3", " 7", "7 ", "١٢"}[rng.Intn(7)], kind: "U256", class: "non-numeric"}
	case x == 17:
		return numSpec{text: "5", val: big.NewInt(5), kind: "wrong-type-tag", class: "wrong-type-tag"}
	case x == 18:
		return numSpec{text: "5", val: big.NewInt(5), kind: "wrong-val-kind", class: "wrong-val-kind"}
	default:
		v := big.NewInt(int64(rng.Intn(256)))
		return numSpec{text: "+" + v.String(), val: v, kind: "U256", class: "plus-sign"}
	}
}

func classOf(v, max *big.Int) string {
	switch {
	case v.Sign() < 0:
		return "negative"
	case v.Cmp(max) > 0:
		return "above-max"
	case v.Cmp(max) == 0:
		return "max"
	}
	return "in-range"
}

func (n numSpec) val2() sdk.Val {
	switch n.kind {
	case "wrong-type-tag":
		return sdk.Val{ValU256: &sdk.ValU256{Type: "I256", Value: n.text}}
	case "wrong-val-kind":
		return sdk.Val{ValI256: &sdk.ValI256{Type: "I256", Value: n.text}}
	}
	return sdk.Val{ValU256: &sdk.ValU256{Type: "U256", Value: n.text}}
}

// fits: the reported value is a plain non-negative decimal within [0,max]
func (n numSpec) fits(max *big.Int) bool {
	return n.kind == "U256" && n.val != nil && n.val.Sign() >= 0 && n.val.Cmp(max) <= 0 && n.class != "non-numeric"
}

type bvSpec struct {
	text  string
	bytes []byte // nil when the text is not valid hex
	kind  string
	class string
}

func genBV(rng *rand.Rand, lens []int, want int) bvSpec {
	n := lens[rng.Intn(len(lens))]
	b := make([]byte, n)
	rng.Read(b)
	s := bvSpec{text: hex.EncodeToString(b), bytes: b, kind: "ByteVec", class: fmt.Sprintf("len=%d", n)}
	if want >= 0 && n == want {
		s.class = "fitting"
	}
	switch rng.Intn(25) {
	case 0:
		s.text, s.bytes, s.class = s.text+"a", nil, "odd-hex"
	case 1:
		s.text, s.bytes, s.class = "zz"+s.text, nil, "non-hex"
	case 2:
		s.kind, s.class = "wrong-type-tag", "wrong-type-tag"
	case 3:
		s.kind, s.class = "wrong-val-kind", "wrong-val-kind"
	}
	return s
}

func (b bvSpec) val() sdk.Val {
	switch b.kind {
	case "wrong-type-tag":
		return sdk.Val{ValByteVec: &sdk.ValByteVec{Type: "Address", Value: b.text}}
	case "wrong-val-kind":
		return sdk.Val{ValAddress: &sdk.ValAddress{Type: "Address", Value: b.text}}
	}
	return sdk.Val{ValByteVec: &sdk.ValByteVec{Type: "ByteVec", Value: b.text}}
}
func (b bvSpec) ok() bool { return b.kind == "ByteVec" && b.bytes != nil }

func main() {
	r = vlib.Start("C11", "exploration")
	rng := r.Rand("gen")
	max16, max64, max8 := big.NewInt(65535), sub1(pow2(64)), big.NewInt(255)
	n := r.Pick(50000, 1500000)
	type heldMsg struct {
		mp      *common.MessagePublication
		payload []byte
		sender  []byte
		seq     uint64
		desc    map[string]interface{}
	}
	var held []heldMsg
	for i := 0; i < n; i++ {
		sender := genBV(rng, []int{32, 32, 32, 32, 32, 32, 31, 33, 0, 64}, 32)
		target := genNum(rng, max16)
		seq := genNum(rng, max64)
		nonce := genBV(rng, []int{4, 4, 4, 4, 4, 3, 5, 0, 8}, 4)
		payload := genBV(rng, []int{0, 1, 2, 33, 100, 133, 1000, 1001, 4096}, -1)
		cl := genNum(rng, max8)
		fields := []sdk.Val{sender.val(), target.val2(), seq.val2(), nonce.val(), payload.val(), cl.val2()}
		countClass := "six-fields"
		switch rng.Intn(30) {
		case 0:
			fields = fields[:5]
			countClass = "five-fields"
		case 1:
			fields = append(fields, cl.val2())
			countClass = "seven-fields"
		case 2:
			fields = nil
			countClass = "no-fields"
		}
		txb := make([]byte, 32)
		rng.Read(txb)
		txId := hex.EncodeToString(txb)
		tsms := []int64{0, 1, 999, 1000, 1700000000123, 1700000000999, 1700000001000, int64(rng.Int63n(4e12))}[rng.Intn(8)]
		header := &sdk.BlockHeaderEntry{Hash: "h", Timestamp: tsms, Height: int32(rng.Intn(1 << 30))}
		wantOK := countClass == "six-fields" && sender.ok() && len(sender.bytes) == 32 && target.fits(max16) && seq.fits(max64) && nonce.ok() && len(nonce.bytes) == 4 && payload.ok() && cl.fits(max8)
		var mp *common.MessagePublication
		var err error
		var pv interface{}
		func() {
			defer func() { pv = recover() }()
			mp, err = alephium.VerifEventToMessage(fields, txId, header)
		}()
		r.Count("events", 1)
		desc := map[string]interface{}{"sender": sender.text, "sender_class": sender.class, "target_chain": target.text, "target_class": target.class, "sequence": seq.text, "sequence_class": seq.class,
			"nonce": nonce.text, "nonce_class": nonce.class, "payload_len": len(payload.bytes), "payload_class": payload.class, "consistency": cl.text, "consistency_class": cl.class, "fields": countClass, "block_timestamp_ms": tsms}
		r.Distinct("classes", fmt.Sprintf("%s|%s|%s|%s|%s|%s|%s", sender.class, target.class, seq.class, nonce.class, payload.class, cl.class, countClass))
		if i < 3 {
			r.Sample(desc)
		}
		switch {
		case pv != nil:
			desc["panic"] = fmt.Sprint(pv)
			r.Violation("conversion-panics", desc)
		case wantOK && err != nil:
			desc["err"] = err.Error()
			cls := "fitting-event-rejected"
			switch {
			case target.class == "max":
				cls += ":target-chain=65535"
			case cl.class == "max":
				cls += ":consistency-level=255"
			case seq.class == "max":
				cls += ":sequence=2^64-1"
			case target.class == "plus-sign" || seq.class == "plus-sign" || cl.class == "plus-sign":
				cls += ":plus-sign"
			}
			r.Violation(cls, desc)
		case !wantOK && err == nil:
			why := "other"
			switch {
			case countClass != "six-fields":
				why = countClass
			case !target.fits(max16):
				why = "target-chain:" + target.class
			case !seq.fits(max64):
				why = "sequence:" + seq.class
			case !cl.fits(max8):
				why = "consistency-level:" + cl.class
			case !sender.ok() || len(sender.bytes) != 32:
				why = "sender:" + sender.class
			case !nonce.ok() || len(nonce.bytes) != 4:
				why = "nonce:" + nonce.class
			case !payload.ok():
				why = "payload:" + payload.class
			}
			desc["got"] = fmt.Sprintf("target=%d seq=%d cl=%d", mp.TargetChain, mp.Sequence, mp.ConsistencyLevel)
			r.Violation("non-fitting-event-accepted:"+why, desc)
		case wantOK:
			r.Count("fitting_events_checked", 1)
			bad := ""
			switch {
			case uint64(mp.TargetChain) != target.val.Uint64():
				bad = "target-chain"
			case mp.Sequence != seq.val.Uint64():
				bad = "sequence"
			case uint64(mp.ConsistencyLevel) != cl.val.Uint64():
				bad = "consistency-level"
			case !bytes.Equal(mp.EmitterAddress[:], sender.bytes):
				bad = "sender"
			case mp.Nonce != uint32(nonce.bytes[0])<<24|uint32(nonce.bytes[1])<<16|uint32(nonce.bytes[2])<<8|uint32(nonce.bytes[3]):
				bad = "nonce"
			case !bytes.Equal(mp.Payload, payload.bytes):
				bad = "payload"
			case mp.EmitterChain != vaa.ChainIDAlephium:
				bad = "emitter-chain"
			case mp.Timestamp.UnixMilli() != tsms:
				bad = "timestamp"
			case !bytes.Equal(mp.TxHash[:], txb):
				bad = "tx-hash"
			}
			if bad != "" {
				r.Violation("field-mapped-wrongly:"+bad, desc)
			} else {
				// messages wait (for confirmations, in the hand-over queue) while later events are decoded: a message that
				// was right when it was produced must still be right then - it may not share storage with later conversions
				held = append(held, heldMsg{mp, append([]byte{}, payload.bytes...), sender.bytes, mp.Sequence, desc})
				if len(held) > 16 {
					held = held[1:]
				}
			}
		default:
			r.Count("non_fitting_events_rejected", 1)
		}
		for hi := 0; hi < len(held)-1; hi++ { // every conversion, accepted or not, is followed by a look at the waiting ones
			h := held[hi]
			if !bytes.Equal(h.mp.Payload, h.payload) || !bytes.Equal(h.mp.EmitterAddress[:], h.sender) || h.mp.Sequence != h.seq {
				h.desc["conversions_since"] = len(held) - 1 - hi
				r.Violation("message-changed-by-a-later-conversion", h.desc)
				held = nil
				break
			}
			r.Count("held_messages_rechecked", 1)
		}
	}
	// ---- id/address and hex converters are mutual inverses
	nc := r.Pick(20000, 100000)
	for i := 0; i < nc; i++ {
		var id alephium.Byte32
		rng.Read(id[:])
		if i%7 == 0 {
			id = alephium.Byte32{}
			id[rng.Intn(32)] = byte(rng.Intn(256))
		}
		r.Count("converter_cases", 1)
		h := id.ToHex()
		back, err := alephium.HexToByte32(h)
		if err != nil || back != id || h != hex.EncodeToString(id[:]) {
			r.Violation("hex-conversion-not-inverse", map[string]interface{}{"id": hex.EncodeToString(id[:])})
		}
		addr, err := alephium.ToContractAddress(h)
		if err != nil {
			r.Violation("contract-address-conversion-fails", map[string]interface{}{"id": h})
			continue
		}
		id2, err := alephium.ToContractId(*addr)
		if err != nil || id2 != id {
			r.Violation("contract-id-address-not-inverse", map[string]interface{}{"id": h, "address": *addr})
		}
	}
	for _, bad := range []string{"", "00", strings.Repeat("0", 63), strings.Repeat("0", 65), strings.Repeat("g", 64)} {
		if _, err := alephium.HexToByte32(bad); err == nil {
			r.Violation("hex-conversion-accepts-malformed", map[string]interface{}{"input": bad})
		}
	}
	// ---- attestation payloads as the contract builds them
	ral, err := csrc.LoadRalph(vlib.Repo()+"/alephium/contracts/token_bridge/token_bridge.ral", vlib.Repo()+"/alephium/contracts/token_bridge/token_bridge_constants.ral")
	if err != nil || !ral.HasFunc("attestToken") {
		r.Inconclusive(fmt.Sprintf("token_bridge.ral attestToken not loadable: %v", err))
	} else {
		na := r.Pick(5000, 50000)
		for i := 0; i < na; i++ {
			tok := make([]byte, 32)
			rng.Read(tok)
			dec := int64(rng.Intn(256))
			mk := func() (string, []byte) {
				n := rng.Intn(33)
				s := make([]byte, n)
				for j := range s {
					s[j] = byte(33 + rng.Intn(94))
				}
				// metadata is bytes, not text: one in four values carries a zero byte or a byte that is not valid UTF-8 in the
				// middle (never at either end, where it would be indistinguishable from the padding)
				if n >= 3 && rng.Intn(4) == 0 {
					s[1+rng.Intn(n-2)] = []byte{0x00, 0xff, 0xc3, 0x80}[rng.Intn(4)]
				}
				padded := make([]byte, 32)
				if rng.Intn(2) == 0 {
					copy(padded, s) // right padded
				} else {
					copy(padded[32-n:], s) // left padded
				}
				return string(s), padded
			}
			sym, symB := mk()
			name, nameB := mk()
			res, err := ral.Run("attestToken", csrc.Env{"localTokenId": csrc.Bytes(tok), "decimals": csrc.Int(dec), "symbol": csrc.Bytes(symB), "name": csrc.Bytes(nameB),
				"nonce": csrc.Bytes([]byte{1, 2, 3, 4}), "consistencyLevel": csrc.Int(10), "localChainId": csrc.Int(int64(vaa.ChainIDAlephium))})
			if err != nil || res.Aborted || res.Env["payload"].K != csrc.KBytes {
				r.Inconclusive(fmt.Sprintf("attestToken not interpretable: %v %+v", err, res))
				break
			}
			p := res.Env["payload"].B
			r.Count("attestation_payloads", 1)
			ti, err := alephium.VerifParseAttestToken(p)
			w := map[string]interface{}{"payload": hex.EncodeToString(p), "symbol": sym, "name": name, "decimals": dec}
			switch {
			case err != nil:
				w["err"] = err.Error()
				r.Violation("contract-built-attestation-rejected", w)
			case !bytes.Equal(ti.TokenId[:], tok) || int64(ti.Decimals) != dec || ti.Symbol != sym || ti.Name != name:
				w["got"] = fmt.Sprintf("%x %d %q %q", ti.TokenId, ti.Decimals, ti.Symbol, ti.Name)
				r.Violation("attestation-decoded-differently", w)
			}
			// wrong length / wrong chain id must be rejected
			if _, err := alephium.VerifParseAttestToken(p[:len(p)-1]); err == nil {
				r.Violation("truncated-attestation-accepted", w)
			}
			q := append([]byte{}, p...)
			q[34] ^= 1
			if _, err := alephium.VerifParseAttestToken(q); err == nil {
				r.Violation("attestation-of-other-chain-accepted", w)
			}
		}
	}
	r.Count("evaluations", r.GetCount("events")+r.GetCount("converter_cases")+r.GetCount("attestation_payloads"))
	if r.GetCount("fitting_events_checked") == 0 || r.GetCount("non_fitting_events_rejected") == 0 || r.GetCount("attestation_payloads") == 0 {
		r.Inconclusive("a direction of the oracle was never exercised")
	}
	r.Assume("a leading '+' on a decimal is treated as fitting (big.Int parsing accepts it; a node never reports it)", "attestation payloads are built by interpreting the ++ concatenation of token_bridge.ral::attestToken, not by an Alephium VM")
	r.Finish("evaluations", "classes", "events with every numeric field drawn from the boundary list (0,1,254,255,256,65534,65535,65536,2^32-1,2^32,2^64-1,2^64,2^256-1, negatives), random in-range values, non-numeric strings, wrong type tags and Val kinds, 0/5/7 fields, sender of 0/31/32/33/64 bytes, nonce of 0/3/4/5/8 bytes, payloads 0..4096, block timestamps with every millisecond remainder; distinct non-trivial = distinct tuples of per-field value classes", 100)
}
