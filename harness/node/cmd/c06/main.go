// C06 - VerifySignatures accepts exactly valid, ordered, in-set signatures.
// The real (*VAA).VerifySignatures is called on generated guardian lists / signature lists and
// every single-step corruption of them; its boolean is compared with an independent reference.
package main

import (
	"crypto/ecdsa"
	"fmt"
	"math/big"
	"sort"
	"time"

	"github.com/alephium/wormhole-fork/node/pkg/vaa"
	ethcommon "github.com/ethereum/go-ethereum/common"
	"verif/harness/node/internal/vlib"
)

var r *vlib.Run

type sigT struct {
	Idx uint8
	Sig [65]byte
}

func ref(digest []byte, sigs []sigT, list []ethcommon.Address) bool {
	last := -1
	seen := map[ethcommon.Address]bool{}
	for _, s := range sigs {
		if int(s.Idx) >= len(list) || int(s.Idx) <= last {
			return false
		}
		last = int(s.Idx)
		a, err := vlib.Recover(digest, s.Sig[:])
		if err != nil || a != list[s.Idx] || seen[a] {
			return false
		}
		seen[a] = true
	}
	return true
}

func realVerify(v *vaa.VAA, sigs []sigT, list []ethcommon.Address) (res bool, panicked string) {
	v.Signatures = nil
	for _, s := range sigs {
		v.Signatures = append(v.Signatures, &vaa.Signature{Index: s.Idx, Signature: s.Sig})
	}
	defer func() {
		if p := recover(); p != nil {
			panicked = fmt.Sprint(p)
		}
	}()
	return v.VerifySignatures(list), ""
}

func describe(sigs []sigT, list []ethcommon.Address) map[string]interface{} {
	var idx []int
	for _, s := range sigs {
		idx = append(idx, int(s.Idx))
	}
	return map[string]interface{}{"list_len": len(list), "sig_indices": idx}
}

func check(kind string, v *vaa.VAA, body []byte, sigs []sigT, list []ethcommon.Address) {
	d := vlib.Digest(body)
	want := ref(d, sigs, list)
	got, p := realVerify(v, sigs, list)
	r.Count("calls", 1)
	r.Count(fmt.Sprintf("expect_%v", want), 1)
	r.Distinct("cases", fmt.Sprintf("%d/%s/%v", len(list), kind, want))
	if p != "" {
		w := describe(sigs, list)
		w["panic"] = p
		w["kind"] = kind
		r.Violation("verify:panic:"+kind, w)
		return
	}
	if got != want {
		w := describe(sigs, list)
		w["kind"], w["got"], w["want"] = kind, got, want
		if len(sigs) <= 4 {
			var ss []string
			for _, s := range sigs {
				ss = append(ss, vlib.Hex(s.Sig[:]))
			}
			w["sigs"] = ss
			w["body"] = vlib.Hex(body)
			var ls []string
			for _, a := range list {
				ls = append(ls, a.Hex())
			}
			if len(ls) <= 8 {
				w["list"] = ls
			}
		}
		r.Violation(fmt.Sprintf("verify:%s:got=%v,want=%v", kind, got, want), w)
	}
}

func main() {
	r = vlib.Start("C06", "exploration")
	rng := r.Rand("gen")
	keys := make([]*ecdsa.PrivateKey, 300)
	addrs := make([]ethcommon.Address, 300)
	for i := range keys {
		keys[i] = vlib.Key(i)
		addrs[i] = vlib.Addr(keys[i])
	}
	keyOf := map[ethcommon.Address]*ecdsa.PrivateKey{}
	for i, a := range addrs {
		keyOf[a] = keys[i]
	}
	lengths := []int{0, 1, 2, 3, 4, 19, 20, 64, 128, 255}
	if !r.Quick() {
		lengths = nil
		for i := 0; i <= 255; i++ {
			lengths = append(lengths, i)
		}
	}
	rounds := r.Pick(100, 36)
	sampleN := 0
	for round := 0; round < rounds; round++ {
		for _, L := range lengths {
			// guardian list, with 0..2 repeated addresses
			perm := rng.Perm(280)[:L]
			list := make([]ethcommon.Address, L)
			for i := range list {
				list[i] = addrs[perm[i]]
			}
			reps := 0
			if L >= 2 {
				reps = rng.Intn(3)
			}
			for k := 0; k < reps; k++ {
				i, j := rng.Intn(L), rng.Intn(L)
				list[j] = list[i]
			}
			v := &vaa.VAA{Version: 1, GuardianSetIndex: rng.Uint32(), Timestamp: time.Unix(int64(rng.Uint32()), 0), Nonce: rng.Uint32(), Sequence: rng.Uint64(),
				ConsistencyLevel: uint8(rng.Intn(256)), EmitterChain: vaa.ChainID(rng.Intn(65536)), TargetChain: vaa.ChainID(rng.Intn(65536)), Payload: make([]byte, 1+rng.Intn(100))}
			rng.Read(v.Payload)
			rng.Read(v.EmitterAddress[:])
			body := v.SerializeBody()
			d := vlib.Digest(body)
			// signer subset
			k := 0
			if L > 0 {
				switch rng.Intn(5) {
				case 0:
					k = L
				case 1:
					k = vlib.Quorum(L)
				case 2:
					k = 1
				default:
					k = 1 + rng.Intn(L)
				}
				if k > 24 && rng.Intn(4) != 0 {
					k = 1 + rng.Intn(24)
				}
				if k > L {
					k = L
				}
			}
			idxs := rng.Perm(L)[:k]
			sort.Ints(idxs)
			var sigs []sigT
			for _, i := range idxs {
				var s sigT
				s.Idx = uint8(i)
				copy(s.Sig[:], vlib.Sign(keyOf[list[i]], d))
				sigs = append(sigs, s)
			}
			cp := func() []sigT { return append([]sigT{}, sigs...) }
			if sampleN < 3 && L > 0 && L < 30 {
				sampleN++
				r.Sample(map[string]interface{}{"list_len": L, "repeated_addresses": reps, "signers": idxs, "digest": vlib.Hex(d)})
			}
			check("valid", v, body, sigs, list)
			check("valid-longer-list", v, body, sigs, append(append([]ethcommon.Address{}, list...), addrs[290]))
			if L > 0 {
				check("shorter-list", v, body, sigs, list[:L-1])
				check("list-shorter-than-sigs", v, body, sigs, list[:rng.Intn(len(sigs)+1)])
			}
			check("empty-sigs", v, body, nil, list)
			if len(sigs) == 0 {
				// a signature against an empty list
				var s sigT
				copy(s.Sig[:], vlib.Sign(keys[0], d))
				check("sig-on-empty-list", v, body, []sigT{s}, list)
				continue
			}
			// body bit flip after signing
			{
				v2 := *v
				v2.Payload = append([]byte{}, v.Payload...)
				v2.Payload[rng.Intn(len(v2.Payload))] ^= 1 << uint(rng.Intn(8))
				check("body-bitflip", &v2, v2.SerializeBody(), sigs, list)
				v3 := *v
				v3.Sequence ^= 1
				check("body-seqflip", &v3, v3.SerializeBody(), sigs, list)
			}
			p := rng.Intn(len(sigs))
			if len(sigs) >= 2 {
				q := (p + 1 + rng.Intn(len(sigs)-1)) % len(sigs)
				s := cp()
				s[p], s[q] = s[q], s[p]
				check("swap", v, body, s, list)
				s = cp()
				s[0], s[len(s)-1] = s[len(s)-1], s[0]
				check("swap-ends", v, body, s, list)
				// arrival order (shuffle)
				s = cp()
				rng.Shuffle(len(s), func(i, j int) { s[i], s[j] = s[j], s[i] })
				check("shuffle", v, body, s, list)
				// drop one (still valid)
				s = append(cp()[:p], cp()[p+1:]...)
				check("drop-one", v, body, s, list)
			}
			{ // duplicate adjacent, duplicate appended
				s := append(cp()[:p+1], cp()[p:]...)
				check("dup-adjacent", v, body, s, list)
				s = append(cp(), sigs[p])
				check("dup-appended", v, body, s, list)
			}
			for _, delta := range []int{-1, 1} {
				ni := int(sigs[p].Idx) + delta
				if ni >= 0 && ni <= 255 {
					s := cp()
					s[p].Idx = uint8(ni)
					check(fmt.Sprintf("reindex%+d", delta), v, body, s, list)
				}
			}
			{
				s := cp()
				s[p].Idx = 255
				check("reindex-255", v, body, s, list)
				if L <= 255 {
					s = cp()
					s[len(s)-1].Idx = uint8(L)
					check("reindex-len", v, body, s, list)
				}
			}
			{ // signer repeated at the index of a repeated address (same key valid at two indices)
				for i := 0; i < L; i++ {
					for j := i + 1; j < L && j < i+40; j++ {
						if list[i] == list[j] {
							var a, b sigT
							a.Idx, b.Idx = uint8(i), uint8(j)
							copy(a.Sig[:], vlib.Sign(keyOf[list[i]], d))
							b.Sig = a.Sig
							check("same-signer-at-two-indices", v, body, []sigT{a, b}, list)
							i = L
							break
						}
					}
				}
			}
			{ // outsider key at a member's index
				s := cp()
				copy(s[p].Sig[:], vlib.Sign(keys[295], d))
				check("outsider-key", v, body, s, list)
				// another member's signature at this index
				if len(sigs) >= 2 {
					s = cp()
					s[p].Sig = sigs[(p+1)%len(sigs)].Sig
					check("other-members-sig", v, body, s, list)
				}
			}
			for _, rb := range []byte{2, 3, 4, 27, 28, 255} {
				s := cp()
				s[p].Sig[64] = rb
				check(fmt.Sprintf("recid-%d", rb), v, body, s, list)
			}
			{
				s := cp()
				s[p].Sig[64] ^= 1
				check("recid-flip", v, body, s, list)
				s = cp()
				for i := 0; i < 32; i++ {
					s[p].Sig[i] = 0
				}
				check("r-zero", v, body, s, list)
				s = cp()
				for i := 32; i < 64; i++ {
					s[p].Sig[i] = 0
				}
				check("s-zero", v, body, s, list)
				s = cp()
				s[p].Sig = [65]byte{}
				check("all-zero", v, body, s, list)
				s = cp()
				for i := range s[p].Sig {
					s[p].Sig[i] = 0xff
				}
				check("all-ff", v, body, s, list)
				// malleated twin: s -> n-s, v flipped: still a valid signature by the same key
				s = cp()
				sv := new(big.Int).SetBytes(s[p].Sig[32:64])
				sv.Sub(vlib.Secp256k1N, sv)
				sv.FillBytes(s[p].Sig[32:64])
				s[p].Sig[64] ^= 1
				check("malleated-high-s", v, body, s, list)
				s = cp()
				s[p].Sig[rng.Intn(64)] ^= 1 << uint(rng.Intn(8))
				check("sig-bitflip", v, body, s, list)
			}
		}
	}
	r.Count("evaluations", r.GetCount("calls"))
	if r.GetCount("expect_true") == 0 || r.GetCount("expect_false") == 0 {
		r.Inconclusive("one direction of the iff was never exercised")
	}
	r.Assume("secp256k1 recovery (go-ethereum crypto.Ecrecover) and Keccak are shared between the reference and the code under test",
		"for guardian lists that repeat an address the reference also rejects a signer that appears twice (the purpose clause of the property)")
	r.Finish("evaluations", "cases", "guardian lists of the chosen lengths (quick: 0,1,2,3,4,19,20,64,128,255; thorough: every 0..255) with 0-2 repeated addresses, a valid ascending signature list, and every single-step corruption; distinct non-trivial = distinct (list length, corruption kind, expected verdict)", 100)
}
