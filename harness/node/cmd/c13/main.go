// C13 - no untrusted input can crash the signing pipeline.
// Adversarial histories over all processor inputs are replayed against the real handlers
// (direct mode, recover() per call turns a panic into a witness) and a share of them through
// the real Run loop inside a child process under the real supervisor with panic propagation
// (a panic there kills the process, as in production).
package main

import (
	"bytes"
	"encoding/json"
	"flag"
	"fmt"
	"math/rand"
	"os"
	"os/exec"
	"regexp"
	"runtime/debug"
	"strings"
	"time"

	"github.com/alephium/wormhole-fork/node/pkg/common"
	gossipv1 "github.com/alephium/wormhole-fork/node/pkg/proto/gossip/v1"
	"github.com/alephium/wormhole-fork/node/pkg/vaa"
	ethcommon "github.com/ethereum/go-ethereum/common"
	"verif/harness/node/internal/proc"
	"verif/harness/node/internal/vlib"
)

var (
	mode    = flag.String("mode", "parent", "parent|child")
	cseed   = flag.Int64("cseed", 0, "child: scenario stream seed")
	ccount  = flag.Int("ccount", 0, "child: number of histories")
	cserial = flag.Uint64("cserial", 0, "child: id serial base")
)

type ev struct {
	Kind string // set msg obs inbound inject cleanup age loopback
	Desc string
	Set  *common.GuardianSet
	Msg  *common.MessagePublication
	Obs  *gossipv1.SignedObservation
	In   []byte
	Inj  *vaa.VAA
	Age  time.Duration
}

func keysOf(pool []int) []ethcommon.Address {
	var out []ethcommon.Address
	for _, k := range pool {
		out = append(out, vlib.Addr(vlib.Key(k)))
	}
	return out
}

// genHistory builds one adversarial history. Patterns are mixed with random noise.
func genHistory(rng *rand.Rand, serial uint64) (evs []ev, desc string) {
	n := []int{1, 1, 2, 3, 4, 7, 19}[rng.Intn(7)]
	pool := []int{proc.NodeKey}
	for i := 1; i < n; i++ {
		pool = append(pool, i)
	}
	rng.Shuffle(len(pool), func(i, j int) { pool[i], pool[j] = pool[j], pool[i] })
	set := &common.GuardianSet{Keys: keysOf(pool), Index: uint32(rng.Intn(4))}
	q := vlib.Quorum(n)
	var msgs []*proc.Msg
	mkMsg := func(j int) *proc.Msg {
		mp := &common.MessagePublication{Nonce: rng.Uint32(), Sequence: serial*64 + uint64(j), ConsistencyLevel: uint8(rng.Intn(256)), EmitterChain: vaa.ChainID(2 + rng.Intn(5)), TargetChain: vaa.ChainID(rng.Intn(5))}
		switch rng.Intn(8) {
		case 0:
			mp.Payload = nil
		case 1:
			mp.Payload = []byte{}
		case 2:
			mp.Payload = make([]byte, 70000)
			if rng.Intn(6) == 0 {
				mp.Payload = make([]byte, 1<<20)
			}
		case 3:
			mp.Payload = make([]byte, 1001+rng.Intn(2000))
		default:
			mp.Payload = make([]byte, 1+rng.Intn(100))
		}
		rng.Read(mp.Payload)
		switch rng.Intn(6) {
		case 0:
			mp.Timestamp = time.Time{}
		case 1:
			mp.Timestamp = time.Unix(0, 0)
		case 2:
			mp.Timestamp = time.Unix(1<<40, 0)
		case 3:
			mp.Timestamp = time.Unix(-5, 0)
		default:
			mp.Timestamp = time.Unix(1700000000+int64(rng.Intn(1000)), int64(rng.Intn(1000000000)))
		}
		if rng.Intn(4) != 0 {
			rng.Read(mp.EmitterAddress[:])
		}
		if rng.Intn(4) != 0 {
			rng.Read(mp.TxHash[:])
		}
		if rng.Intn(25) == 0 {
			mp.EmitterChain, mp.EmitterAddress = proc.GovChain, proc.GovEmitter
		}
		return proc.NewMsg(mp)
	}
	for j := 0; j < 1+rng.Intn(3); j++ {
		msgs = append(msgs, mkMsg(j))
	}
	obsOf := func(m *proc.Msg, k int, variant string) ev {
		return ev{Kind: "obs", Desc: fmt.Sprintf("obs(%s,k%d,%s)", short(m.ID), k, variant), Obs: proc.MkObs(m, m.Digest, k, variant, rng, ethcommon.Address{})}
	}
	full := func(m *proc.Msg) []ev { // everything needed to complete and store m
		out := []ev{{Kind: "msg", Desc: "msg(" + short(m.ID) + fmt.Sprintf(",payload=%d)", len(m.Pub.Payload)), Msg: m.Pub}, {Kind: "loopback"}}
		for _, k := range pool {
			if k != proc.NodeKey {
				out = append(out, obsOf(m, k, "valid"))
			}
		}
		return out
	}
	pattern := rng.Intn(8)
	desc = fmt.Sprintf("n=%d pattern=%d", n, pattern)
	switch pattern {
	case 0: // traffic (incl. injection) before any guardian set, then ticks
		m := msgs[0]
		evs = append(evs, ev{Kind: "inject", Desc: "inject-before-set", Inj: injVAA(rng, serial, 0)}, ev{Kind: "msg", Desc: "msg-before-set", Msg: m.Pub}, obsOf(m, 1, "valid"),
			ev{Kind: "inbound", Desc: "inbound-before-set", In: proc.MkVAA(m.Body, 0, &proc.GSet{Pool: pool}, []int{0}, -1)},
			ev{Kind: "age", Age: 31 * time.Second}, ev{Kind: "cleanup"}, ev{Kind: "age", Age: 6 * time.Minute}, ev{Kind: "cleanup"})
		evs = append(evs, ev{Kind: "set", Set: set})
		evs = append(evs, full(m)...)
	case 1: // complete, store, observe again (re-observation of a stored message)
		evs = append(evs, ev{Kind: "set", Set: set})
		for _, m := range msgs {
			evs = append(evs, full(m)...)
			evs = append(evs, ev{Kind: "msg", Desc: "re-observe(" + short(m.ID) + ")", Msg: m.Pub}, ev{Kind: "loopback"})
			if rng.Intn(2) == 0 {
				evs = append(evs, ev{Kind: "age", Age: 2 * time.Hour}, ev{Kind: "cleanup"}, ev{Kind: "msg", Desc: "re-observe-after-expiry(" + short(m.ID) + ")", Msg: m.Pub})
			}
		}
	case 2: // stored through the inbound path, then observed locally
		evs = append(evs, ev{Kind: "set", Set: set})
		m := msgs[0]
		var pos []int
		for i := 0; i < q; i++ {
			pos = append(pos, i)
		}
		evs = append(evs, ev{Kind: "inbound", Desc: "inbound-valid(" + short(m.ID) + ")", In: proc.MkVAA(m.Body, set.Index, &proc.GSet{Pool: pool, Index: set.Index}, pos, -1)})
		evs = append(evs, full(m)...)
	case 3: // empty / shrinking guardian sets in the middle
		evs = append(evs, ev{Kind: "set", Set: set})
		m := msgs[0]
		evs = append(evs, ev{Kind: "msg", Msg: m.Pub, Desc: "msg(" + short(m.ID) + ")"}, ev{Kind: "set", Desc: "set(empty)", Set: &common.GuardianSet{Keys: nil, Index: set.Index + 1}}, ev{Kind: "loopback"})
		for _, k := range pool {
			evs = append(evs, obsOf(m, k, "valid"))
		}
		evs = append(evs, ev{Kind: "inbound", Desc: "inbound-with-empty-set", In: proc.MkVAA(m.Body, set.Index, &proc.GSet{Pool: pool}, []int{0}, -1)}, ev{Kind: "msg", Msg: msgs[len(msgs)-1].Pub, Desc: "msg-under-empty-set"}, ev{Kind: "loopback"},
			ev{Kind: "age", Age: 40 * time.Second}, ev{Kind: "cleanup"}, ev{Kind: "age", Age: 10 * time.Minute}, ev{Kind: "cleanup"})
	case 4: // injections interleaved with ticks
		evs = append(evs, ev{Kind: "set", Set: set})
		for j := 0; j < 3; j++ {
			evs = append(evs, ev{Kind: "inject", Desc: "inject", Inj: injVAA(rng, serial, j)}, ev{Kind: "loopback"})
		}
		evs = append(evs, ev{Kind: "age", Age: 35 * time.Second}, ev{Kind: "cleanup"}, ev{Kind: "age", Age: 6 * time.Minute}, ev{Kind: "cleanup"}, ev{Kind: "age", Age: 2 * time.Hour}, ev{Kind: "cleanup"})
	case 5: // the same message id with another body (the transaction was re-mined with another timestamp / content) after a VAA for the id is already stored
		evs = append(evs, ev{Kind: "set", Set: set})
		m := msgs[0]
		mp2 := *m.Pub
		mp2.Timestamp = m.Pub.Timestamp.Add(time.Duration(1+rng.Intn(20)) * time.Second)
		if rng.Intn(2) == 0 {
			mp2.Payload = append([]byte{0x77}, m.Pub.Payload...)
		}
		rng.Read(mp2.TxHash[:])
		m2 := proc.NewMsg(&mp2)
		if rng.Intn(2) == 0 {
			evs = append(evs, full(m)...) // stored by the node's own quorum
		} else { // stored through the inbound path
			var pos []int
			for i := 0; i < q; i++ {
				pos = append(pos, i)
			}
			evs = append(evs, ev{Kind: "inbound", Desc: "inbound-valid(" + short(m.ID) + ")", In: proc.MkVAA(m.Body, set.Index, &proc.GSet{Pool: pool, Index: set.Index}, pos, -1)})
		}
		evs = append(evs, full(m2)...)
		evs = append(evs, ev{Kind: "age", Age: 40 * time.Second}, ev{Kind: "cleanup"})
		desc += " same-id-other-body"
	default:
		evs = append(evs, ev{Kind: "set", Set: set})
		for _, m := range msgs {
			evs = append(evs, full(m)...)
		}
	}
	// noise: malformed observations, mutated inbound bytes, ticks, set flips
	noise := 5 + rng.Intn(40)
	for i := 0; i < noise; i++ {
		m := msgs[rng.Intn(len(msgs))]
		var e ev
		switch rng.Intn(12) {
		case 0, 1:
			variant := []string{"forged", "sig64", "sig66", "sig-empty", "hash-short", "hash-long", "hash-nil", "addr-nil", "addr-long", "wrong-addr", "nonmember"}[rng.Intn(11)]
			k := pool[rng.Intn(len(pool))]
			if variant == "nonmember" {
				k = 200 + rng.Intn(20)
			}
			e = obsOf(m, k, variant)
		case 2:
			e = ev{Kind: "obs", Desc: "obs(all-nil)", Obs: &gossipv1.SignedObservation{}}
		case 3:
			b := proc.MkVAA(m.Body, set.Index, &proc.GSet{Pool: pool}, []int{0}, -1)
			switch rng.Intn(5) {
			case 0:
				b = b[:rng.Intn(len(b)+1)]
			case 1:
				b[5] = byte(rng.Intn(256))
			case 2:
				b = append(b, make([]byte, rng.Intn(3000))...)
			case 3:
				b = nil
			case 4:
				b[rng.Intn(len(b))] ^= 0xff
			}
			e = ev{Kind: "inbound", Desc: "inbound(mutated)", In: b}
		case 4:
			e = ev{Kind: "cleanup"}
		case 5:
			e = ev{Kind: "age", Age: []time.Duration{time.Second, 29 * time.Second, 31 * time.Second, 4 * time.Minute, 6 * time.Minute, 61 * time.Minute, 1300 * time.Hour}[rng.Intn(7)]}
		case 6:
			e = ev{Kind: "msg", Desc: "msg-dup(" + short(m.ID) + ")", Msg: m.Pub}
		case 7:
			e = ev{Kind: "loopback"}
		case 8:
			e = ev{Kind: "inject", Desc: "inject", Inj: injVAA(rng, serial, 10+i)}
		case 9:
			if rng.Intn(3) == 0 {
				e = ev{Kind: "set", Desc: "set(other)", Set: &common.GuardianSet{Keys: keysOf([]int{30 + rng.Intn(5), 40}), Index: set.Index + 2}}
			} else {
				e = ev{Kind: "set", Desc: "set(same)", Set: set}
			}
		default:
			e = obsOf(m, pool[rng.Intn(len(pool))], "valid")
		}
		at := rng.Intn(len(evs) + 1)
		evs = append(evs[:at], append([]ev{e}, evs[at:]...)...)
	}
	return evs, desc
}

func injVAA(rng *rand.Rand, serial uint64, j int) *vaa.VAA {
	v := &vaa.VAA{Version: 1, GuardianSetIndex: uint32(rng.Intn(3)), Timestamp: time.Unix(int64(rng.Intn(2))*1700000000, 0), Nonce: rng.Uint32(), Sequence: serial*64 + 40 + uint64(j),
		EmitterChain: proc.GovChain, EmitterAddress: proc.GovEmitter, TargetChain: vaa.ChainID(rng.Intn(3))}
	if rng.Intn(3) != 0 {
		v.Payload = make([]byte, rng.Intn(80))
		rng.Read(v.Payload)
	}
	return v
}

func short(id string) string {
	p := strings.Split(id, "/")
	if len(p) == 4 {
		return p[0] + "/.." + p[1][58:] + "/" + p[2] + "/" + p[3]
	}
	return id
}

func describe(evs []ev, upto int) []string {
	var out []string
	for i, e := range evs {
		if i > upto {
			break
		}
		d := e.Desc
		if d == "" {
			d = e.Kind
			if e.Kind == "age" {
				d = "age(" + e.Age.String() + ")"
			}
		}
		out = append(out, d)
	}
	return out
}

var reFrame = regexp.MustCompile(`wormhole-fork/node/(pkg/[A-Za-z0-9_/]+\.(?:\(\*?[A-Za-z0-9_]+\)\.)?[A-Za-z0-9_]+)(?:\.func\d+)*\(`)

// siteOf names the innermost function of the repository on the panicking stack (hook
// trampolines excluded): stable across line-number changes.
func siteOf(stack string) string {
	for _, m := range reFrame.FindAllStringSubmatch(stack, -1) {
		if !strings.Contains(m[1], "Verif") && !strings.Contains(m[1], "supervisor") {
			return m[1]
		}
	}
	return "unknown"
}

func child() {
	// run mode: the real Run loop under the real supervisor with panic propagation
	rng := rand.New(rand.NewSource(*cseed))
	store, cleanup, err := proc.OpenScratchDB()
	if err != nil {
		fmt.Println("CHILD-SETUP-FAILED", err)
		os.Exit(7)
	}
	defer cleanup()
	for h := 0; h < *ccount; h++ {
		evs, desc := genHistory(rng, *cserial+uint64(h))
		rig, err := proc.New(proc.Options{Key: vlib.Key(proc.NodeKey), DB: store, Run: true})
		if err != nil {
			fmt.Println("CHILD-SETUP-FAILED", err)
			os.Exit(7)
		}
		fmt.Printf("HISTORY %d %s\n", h, desc)
		for i, e := range evs {
			d, _ := json.Marshal(describe(evs, i)[i])
			fmt.Printf("STEP %d %d %s\n", h, i, d)
			var err error
			switch e.Kind {
			case "set":
				err = send(rig.SetC, e.Set)
			case "msg":
				err = send(rig.LockC, e.Msg)
			case "obs":
				err = send(rig.ObsvC, e.Obs)
			case "inbound":
				err = send(rig.SignedInC, &gossipv1.SignedVAAWithQuorum{Vaa: e.In})
			case "inject":
				err = send(rig.InjectC, e.Inj)
			default:
				continue // cleanup / age / loopback are not drivable in run mode
			}
			if err == nil {
				err = rig.Barrier()
			}
			if err != nil {
				fmt.Println("CHILD-STALL", err)
				os.Exit(8)
			}
			rig.DrainSend()
			rig.DrainReq()
			rig.DrainQuorumEvents()
			rig.DrainMsgPubEvents()
		}
		fmt.Printf("DONE %d\n", h)
		rig.Close()
	}
	fmt.Println("CHILD-OK")
}

func send[T any](ch chan T, v T) error {
	select {
	case ch <- v:
		return nil
	case <-time.After(30 * time.Second):
		return fmt.Errorf("send not taken within 30s")
	}
}

func main() {
	flag.Parse()
	if *mode == "child" {
		child()
		return
	}
	r := vlib.Start("C13", "exploration")
	rng := r.Rand("histories")
	store, cleanup, err := proc.OpenScratchDB()
	if err != nil {
		r.Inconclusive("store: " + err.Error())
		r.Finish("histories", "histories_distinct", "", 1)
	}
	defer cleanup()
	nH := r.Pick(1500, 60000)
	serial := uint64(r.Seed&0xffff)<<24 | 2<<40
	for h := 0; h < nH; h++ {
		evs, desc := genHistory(rng, serial+uint64(h))
		rig, err := proc.New(proc.Options{Key: vlib.Key(proc.NodeKey), DB: store})
		if err != nil {
			r.InconclusiveCase("rig: " + err.Error())
			break
		}
		var pending []*gossipv1.SignedObservation
		for i, e := range evs {
			var pv interface{}
			var stack string
			func() {
				defer func() {
					if p := recover(); p != nil {
						pv, stack = p, string(debug.Stack())
					}
				}()
				switch e.Kind {
				case "set":
					rig.P.VerifSetGuardianSet(e.Set)
				case "msg":
					rig.P.VerifHandleMessage(rig.Ctx, e.Msg)
				case "obs":
					rig.P.VerifHandleObservation(rig.Ctx, e.Obs)
				case "inbound":
					rig.P.VerifHandleInbound(rig.Ctx, &gossipv1.SignedVAAWithQuorum{Vaa: e.In})
				case "inject":
					rig.P.VerifHandleInjection(rig.Ctx, e.Inj)
				case "cleanup":
					rig.P.VerifHandleCleanup(rig.Ctx)
				case "age":
					rig.P.VerifAge(e.Age)
				case "loopback":
					if len(pending) > 0 {
						o := pending[0]
						pending = pending[1:]
						rig.P.VerifHandleObservation(rig.Ctx, o)
					}
				}
			}()
			r.Count("events", 1)
			r.Count("events_"+e.Kind, 1)
			for _, o := range rig.DrainSend() {
				if o.Kind == "obs" && (e.Kind == "msg" || e.Kind == "inject") {
					if lb := rig.TakeLoopback(5 * time.Second); lb != nil {
						pending = append(pending, lb)
					}
				}
			}
			rig.DrainReq()
			rig.DrainQuorumEvents()
			rig.DrainMsgPubEvents()
			if pv != nil {
				site := siteOf(stack)
				cls := fmt.Sprintf("panic:%s:%s", e.Kind, site)
				r.Violation(cls, map[string]interface{}{"panic": fmt.Sprint(pv), "site": site, "history": describe(evs, i), "desc": desc, "stack": trim(stack, 1800)})
				r.Count("panics", 1)
				break // the process would have exited here
			}
		}
		rig.Close()
		r.Count("histories", 1)
		r.Distinct("histories_distinct", strings.Join(describe(evs, len(evs)), ";"))
		r.Distinct("patterns", desc)
		if h < 2 {
			r.Sample(map[string]interface{}{"desc": desc, "events": describe(evs, len(evs))})
		}
	}
	// run mode in child processes
	self, _ := os.Executable()
	batches := r.Pick(4, 40)
	per := r.Pick(30, 75)
	for b := 0; b < batches; b++ {
		cs := r.Seed*7919 + int64(b)
		cmd := exec.Command(self, "-mode", "child", "-cseed", fmt.Sprint(cs), "-ccount", fmt.Sprint(per), "-cserial", fmt.Sprint(serial+uint64(1<<20)+uint64(b*per)))
		var so, se bytes.Buffer
		cmd.Stdout, cmd.Stderr = &so, &se
		done := make(chan error, 1)
		if err := cmd.Start(); err != nil {
			r.Inconclusive("cannot start child: " + err.Error())
			break
		}
		go func() { done <- cmd.Wait() }()
		var werr error
		select {
		case werr = <-done:
		case <-time.After(10 * time.Minute):
			_ = cmd.Process.Kill()
			r.InconclusiveCase("run-mode child watchdog fired")
			continue
		}
		out := so.String()
		r.Count("run_mode_histories", int64(strings.Count(out, "\nDONE ")+boolInt(strings.HasPrefix(out, "DONE "))))
		r.Count("run_mode_steps", int64(strings.Count(out, "STEP ")))
		if werr != nil || !strings.Contains(out, "CHILD-OK") {
			lines := strings.Split(strings.TrimSpace(out), "\n")
			var lastSteps []string
			for i := len(lines) - 1; i >= 0 && len(lastSteps) < 12; i-- {
				lastSteps = append([]string{lines[i]}, lastSteps...)
			}
			es := se.String()
			switch {
			case strings.Contains(out, "CHILD-STALL"):
				r.Violation("run-mode:processor-stalled", map[string]interface{}{"last_steps": lastSteps})
			case strings.Contains(out, "CHILD-SETUP-FAILED"):
				r.InconclusiveCase("child setup failed")
			case strings.Contains(es, "panic:") || strings.Contains(es, "fatal error:"):
				site := siteOf(es)
				kind := "unknown"
				if len(lastSteps) > 0 {
					f := strings.Fields(lastSteps[len(lastSteps)-1])
					if len(f) >= 4 {
						kind = strings.Trim(strings.SplitN(f[3], "(", 2)[0], `"`)
					}
				}
				r.Violation(fmt.Sprintf("run-mode:process-exit-by-panic:%s:%s", kind, site), map[string]interface{}{"child_seed": cs, "last_steps": lastSteps, "stderr": trim(es[strings.Index(es, "panic:")+0:], 2500)})
			default:
				r.Violation("run-mode:child-exited-abnormally", map[string]interface{}{"err": fmt.Sprint(werr), "last_steps": lastSteps, "stderr": trim(es, 1500)})
			}
		}
	}
	if r.GetCount("events_cleanup") == 0 || r.GetCount("events_inject") == 0 || r.GetCount("run_mode_steps") == 0 {
		r.Inconclusive("a handler was never reached")
	}
	r.Assume("panics are observed as recovered panics of the real handlers (direct mode) and as process exits of a child running the real Run loop under the real supervisor with panic propagation (run mode; cleanup ticks are not drivable there)")
	r.Finish("histories", "histories_distinct", "adversarial histories of 10-80 events over all processor inputs: payload nil/empty/1 MiB/>1000, zero/negative/far-future timestamps, zero addresses, duplicate ids, malformed observations (nil/short/long hash, signature, address), mutated inbound bytes, injections (also before any guardian set, nil payload), empty and foreign guardian sets, age + cleanup ticks anywhere, complete-store-observe-again patterns; distinct non-trivial = distinct histories", 100)
}

func boolInt(b bool) int {
	if b {
		return 1
	}
	return 0
}

func trim(s string, n int) string {
	if len(s) > n {
		return s[:n]
	}
	return s
}
