// C07 - quorum threshold: real processor.CalculateQuorum vs floor(2n/3)+1 vs the expressions
// extracted at run time from Messages.sol and governance.ral, exhaustively for n = 0..255.
package main

import (
	"fmt"

	"github.com/alephium/wormhole-fork/node/pkg/processor"
	"verif/harness/node/internal/csrc"
	"verif/harness/node/internal/vlib"
)

func main() {
	r := vlib.Start("C07", "exploration")
	solExpr, err := csrc.SolReturnExpr(vlib.Repo()+"/ethereum/contracts/Messages.sol", "quorum")
	if err != nil {
		r.Inconclusive("Messages.sol quorum(): " + err.Error())
	}
	ral, err := csrc.LoadRalph(vlib.Repo() + "/alephium/contracts/governance.ral")
	var ralExpr string
	if err != nil {
		r.Inconclusive("governance.ral: " + err.Error())
	} else {
		var ok bool
		ralExpr, ok = ral.LetExpr("parseAndVerifyVAA", "quorumSize")
		if !ok {
			r.Inconclusive("governance.ral: let quorumSize not found in parseAndVerifyVAA")
		}
	}
	r.Extra("solidity_expr", solExpr)
	r.Extra("ralph_expr", ralExpr)
	type row struct{ N, Go, Spec, Sol, Ralph int64 }
	for n := 0; n <= 255; n++ {
		spec := int64(2*n/3 + 1)
		g := int64(processor.CalculateQuorum(n))
		rw := row{N: int64(n), Go: g, Spec: spec, Sol: -1, Ralph: -1}
		r.Count("evaluations", 1)
		if g != spec {
			r.Violation("node:CalculateQuorum!=floor(2n/3)+1", rw)
		}
		if solExpr != "" {
			v, err := csrc.Eval(solExpr, csrc.Env{"numGuardians": csrc.Int(int64(n))})
			if err != nil || v.K != csrc.KInt {
				r.Inconclusive(fmt.Sprintf("cannot evaluate Solidity expr %q: %v", solExpr, err))
				solExpr = ""
			} else {
				rw.Sol = v.I.Int64()
				r.Count("evaluations", 1)
				if rw.Sol != g {
					r.Violation("node!=Messages.sol:quorum", rw)
				}
				if rw.Sol != spec {
					r.Violation("Messages.sol:quorum!=floor(2n/3)+1", rw)
				}
			}
		}
		if ralExpr != "" {
			v, err := csrc.Eval(ralExpr, csrc.Env{"guardianSize": csrc.Int(int64(n))})
			if err != nil || v.K != csrc.KInt {
				r.Inconclusive(fmt.Sprintf("cannot evaluate Ralph expr %q: %v", ralExpr, err))
				ralExpr = ""
			} else {
				rw.Ralph = v.I.Int64()
				r.Count("evaluations", 1)
				if rw.Ralph != g {
					r.Violation("node!=governance.ral:quorumSize", rw)
				}
				if rw.Ralph != spec {
					r.Violation("governance.ral:quorumSize!=floor(2n/3)+1", rw)
				}
			}
		}
		if n >= 1 {
			if !(3*g > int64(2*n)) {
				r.Violation("node:quorum<=2n/3", rw)
			}
			if g > int64(n) {
				r.Violation("node:quorum>n", rw)
			}
			// two quorums intersect in more than a third: 2q - n > n/3  <=> 3(2q-n) > n
			if !(3*(2*g-int64(n)) > int64(n)) {
				r.Violation("node:quorum-intersection<=n/3", rw)
			}
		}
		r.Distinct("n", fmt.Sprint(n))
		if n == 1 || n == 3 || n == 19 || n == 255 {
			r.Sample(rw)
		}
	}
	r.Extra("exhaustive", true)
	r.Assume("contract formulas are evaluated by the harness' integer-expression evaluator (truncating division, as uint256/U256), not by an EVM / Alephium VM")
	r.Finish("evaluations", "n", "every n in 0..255; each n evaluated in the Go function, the spec, the Solidity return expression and the Ralph let-expression (both extracted from the working tree at run time); all n are distinct and non-trivial", 256)
}
