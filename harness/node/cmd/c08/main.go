// C08 - Alephium messages reach the signer only when final and from the token bridge.
// The real alephium.Watcher (under the real supervisor) runs against a simulated node
// (internal/alphsim) in child processes; every message it forwards is matched with the ground
// truth and judged against the chain states the simulator showed to the watcher.
package main

import (
	"flag"
	"fmt"
	"math/rand"
	"os"
	"time"

	"verif/harness/node/internal/alphsim"
	"verif/harness/node/internal/vlib"
)

var (
	mode   = flag.String("mode", "parent", "parent|child")
	cseed  = flag.Int64("cseed", 0, "child seed")
	ccount = flag.Int("ccount", 0, "scripts per child")
)

var cls = []uint8{0, 0, 0, 1, 2, 10, 204, 205, 206, 254}

func script(seed int64, idx int) {
	rng := rand.New(rand.NewSource(seed))
	page := []int{1, 2, 3, 100}[rng.Intn(4)]
	mainnet := rng.Intn(2) == 0
	w, err := alphsim.NewWorld(rng, page, mainnet, 2, func(s string) { vlib.CStep(fmt.Sprintf("script %d: %s", idx, s)) })
	if err != nil {
		vlib.CInconclusive("world: " + err.Error())
		return
	}
	defer w.H.Stop()
	desc := fmt.Sprintf("seed=%d page=%d mainnet=%v", seed, page, mainnet)
	wait := func(n int) bool {
		if w.H.WaitRounds(n, 25*time.Second) {
			return true
		}
		// a watcher restart (back-off) may be in progress after an injected fault: give it one more chance
		return w.H.WaitRounds(n, 25*time.Second)
	}
	if !wait(2) {
		vlib.CInconclusive("watcher never started polling: " + desc)
		return
	}
	faults := 0
	nSteps := 6 + rng.Intn(10)
	for st := 0; st < nSteps; st++ {
		switch x := rng.Intn(27); {
		case x == 26: // a token is attested, its contract then reports other metadata, and an attestation carrying the OLD metadata follows
			id := w.ReserveToken()
			w.Sim.Mutate("create-token-and-attest", func(s *alphsim.Sim) {
				w.CreateToken(s, id, "TKX", "Token X", 8)
				b := w.NewBlock(s, false)
				in := w.AttestFor(id, "TKX", "Token X", 8, 0)
				tx := fmt.Sprintf("%064x", rng.Uint64())
				e := s.Emit(s.Core, b, tx, 0, alphsim.FieldsOf(in), in, "attest")
				s.TxBlock[tx] = b.Hash
				w.TxOf[tx] = []*alphsim.Ev{e}
				w.Txs = append(w.Txs, tx)
			})
			w.Tr("a new token is created and attested")
			if !wait(3) {
				break
			}
			w.Sim.Mutate("change-metadata-then-stale-attestation", func(s *alphsim.Sim) {
				w.CreateToken(s, id, "TKX", "Token X renamed", 8)
			})
			wait(2)
			w.Sim.Mutate("stale-attestation", func(s *alphsim.Sim) {
				b := w.NewBlock(s, false)
				in := w.AttestFor(id, "TKX", "Token X", 8, 0)
				tx := fmt.Sprintf("%064x", rng.Uint64())
				e := s.Emit(s.Core, b, tx, 0, alphsim.FieldsOf(in), in, "attest-with-outdated-metadata")
				s.TxBlock[tx] = b.Hash
				w.TxOf[tx] = []*alphsim.Ev{e}
				w.Txs = append(w.Txs, tx)
			})
			w.Tr("the token contract now reports another name; an attestation with the old name is emitted")
			vlib.CCount("attestations_with_outdated_metadata", 1)
		case x == 23: // the reported chain height goes DOWN (reorg to a shorter tip, or a lagging backend behind a load balancer); then a message on the new branch
			drop := int32(3 + rng.Intn(12))
			cl := []uint8{2, 5, 10}[rng.Intn(3)]
			w.Sim.Mutate("advance", func(s *alphsim.Sim) { s.SetHeight(s.Height + drop + int32(rng.Intn(5))) })
			wait(2)
			w.Sim.Mutate("height-regression", func(s *alphsim.Sim) {
				nh := s.Height - drop
				for _, b := range s.Blocks {
					if b.Height > nh && b.Main {
						s.SetMain(b.Hash, false)
						for tx, evs := range w.TxOf {
							if len(evs) > 0 && evs[0].Block == b {
								s.TxBlock[tx] = ""
							}
						}
					}
				}
				s.SetHeight(nh)
			})
			w.Tr(fmt.Sprintf("the reported height drops by %d (blocks above the new tip are orphaned)", drop))
			vlib.CCount("height_regressions", 1)
			vlib.CCount("reorgs", 1)
			wait(2)
			var blk *alphsim.Block
			w.Sim.Mutate("emit-after-regression", func(s *alphsim.Sim) {
				blk = w.NewBlock(s, false)
				w.EmitTx(s, blk, "transfer", cl, false)
			})
			w.Tr(fmt.Sprintf("emit transfer cl=%d in block %s at height %d (new branch)", cl, blk.Hash[:8], blk.Height))
			wait(2)
			w.Sim.Mutate("advance", func(s *alphsim.Sim) { s.SetHeight(s.Height + 1) })
			w.Tr("advance height by 1")
		case x == 22: // re-observation exactly at the depth boundary: one block short, then deep enough
			cl := []uint8{1, 2, 3, 5, 10}[rng.Intn(5)]
			var blk *alphsim.Block
			var tx string
			w.Sim.Mutate("emit-for-boundary-reobservation", func(s *alphsim.Sim) {
				blk = w.NewBlock(s, false)
				tx, _ = w.EmitTx(s, blk, []string{"transfer", "attest"}[rng.Intn(2)], cl, false)
				s.SetHeight(blk.Height + int32(cl) - 1)
			})
			w.Tr(fmt.Sprintf("emit tx %s (consistency %d) in block %s height %d; chain height set to %d: one block short", tx[:8], cl, blk.Hash[:8], blk.Height, blk.Height+int32(cl)-1))
			if !wait(2) {
				break
			}
			w.Tr("reobserve " + tx[:8] + " (one block short of its consistency level)")
			if !w.H.Reobserve(tx, 25*time.Second) {
				vlib.CFinding("reobserve:request-not-handled-within-watchdog", map[string]interface{}{"script": desc, "trace": w.Trace})
				return
			}
			vlib.CCount("reobservation_requests", 1)
			vlib.CCount("reobservations_one_block_short", 1)
			w.Sim.Mutate("advance", func(s *alphsim.Sim) { s.SetHeight(s.Height + 1) })
			w.Tr("advance height by 1")
		case x == 20: // one polling round spans several pages and a later page request fails once
			n := page + 1 + rng.Intn(3)
			if page == 100 {
				n = 3
			}
			m := []string{"500", "garbage"}[rng.Intn(2)]
			which := 2 + rng.Intn(2)
			w.Sim.Mutate("emit-multi-page-round", func(s *alphsim.Sim) {
				b := w.NewBlock(s, false)
				for i := 0; i < n; i++ {
					w.EmitTx(s, b, "transfer", 0, false)
				}
				if s.Faults["page"] == nil {
					s.Faults["page"] = map[int]string{}
				}
				s.Faults["page"][s.CountKind2("page")+which] = m
			})
			faults++
			w.Tr(fmt.Sprintf("emit %d final transfers in one block (page limit %d) and answer page request #%d of the coming round with %s", n, page, which, m))
			vlib.CCount("multi_page_rounds_with_failing_page", 1)
			vlib.CCount("faults_injected", 1)
		case x == 21: // messages are delivered, then one request of the idle polling loop fails (the supervisor restarts the watcher)
			n := 1 + rng.Intn(3)
			w.Sim.Mutate("emit-then-restart", func(s *alphsim.Sim) {
				b := w.NewBlock(s, false)
				for i := 0; i < n; i++ {
					w.EmitTx(s, b, []string{"transfer", "attest"}[rng.Intn(2)], 0, false)
				}
			})
			w.Tr(fmt.Sprintf("emit %d final messages in one block", n))
			if !wait(3) {
				break
			}
			kind := []string{"count", "count", "height"}[rng.Intn(3)]
			w.Sim.WithLock(func() {
				if w.Sim.Faults[kind] == nil {
					w.Sim.Faults[kind] = map[int]string{}
				}
				w.Sim.Faults[kind][w.Sim.CountKind2(kind)+1] = "500"
			})
			faults++
			w.Tr("fault: 500 on the next " + kind + " request of the idle polling loop (watcher restart)")
			vlib.CCount("restarts_after_delivery", 1)
			vlib.CCount("faults_injected", 1)
			time.Sleep(300 * time.Millisecond)
		case x < 7: // new block with 1-3 transactions (x == 7: staggered pattern below)
			fresh := rng.Intn(2) == 0
			n := 1 + rng.Intn(3)
			w.Sim.Mutate("emit", func(s *alphsim.Sim) {
				b := w.NewBlock(s, fresh)
				for i := 0; i < n; i++ {
					kind := []string{"transfer", "transfer", "attest", "attest-mismatch", "attest-bad-token", "attest-long-name", "attest-alph", "attest-alph-forged", "foreign-sender", "other"}[rng.Intn(10)]
					cl := cls[rng.Intn(len(cls))]
					tx, _ := w.EmitTx(s, b, kind, cl, rng.Intn(3) == 0)
					w.Tr(fmt.Sprintf("emit %s cl=%d fresh=%v tx=%s block=%s height=%d", kind, cl, fresh, tx[:8], b.Hash[:8], b.Height))
					vlib.CCount("events_"+kind, 1)
				}
			})
		case x == 8 && rng.Intn(2) == 0: // one transaction with two messages of different consistency levels, re-observed in between
			var blk *alphsim.Block
			var tx string
			cl2 := []uint8{5, 10, 204}[rng.Intn(3)]
			w.Sim.Mutate("emit-two-in-one-tx", func(s *alphsim.Sim) {
				blk = w.NewBlock(s, false)
				tx = w.EmitTx2(s, blk, 0, cl2)
			})
			w.Tr(fmt.Sprintf("emit tx %s with two messages (consistency 0 and %d) in block %s height %d", tx[:8], cl2, blk.Hash[:8], blk.Height))
			vlib.CCount("two_message_transactions", 1)
			if !wait(3) {
				break
			}
			w.Tr("reobserve " + tx[:8] + " (second message not final yet)")
			if !w.H.Reobserve(tx, 25*time.Second) {
				vlib.CFinding("reobserve:request-not-handled-within-watchdog", map[string]interface{}{"script": desc, "trace": w.Trace})
				return
			}
			vlib.CCount("reobservation_requests", 1)
		case x == 9 && len(w.Txs) > 0: // the block is orphaned in the middle of a re-observation (after the status answer, before the main-chain answer)
			tx := w.Txs[len(w.Txs)-1-rng.Intn(minInt(3, len(w.Txs)))]
			var blk *alphsim.Block
			w.Sim.WithLock(func() {
				if evs := w.TxOf[tx]; len(evs) > 0 && evs[0].Block.Main {
					blk = evs[0].Block
				}
			})
			if blk == nil {
				break
			}
			w.Sim.Mutate("advance", func(s *alphsim.Sim) { s.SetHeight(s.Height + 300) }) // deep enough for every level
			wait(2)
			stage := 0
			w.Sim.WithLock(func() {
				w.Sim.OnRequest = func(s *alphsim.Sim, kind string, ord int, detail string) {
					switch {
					case stage == 0 && kind == "tx-events" && detail == tx:
						stage = 1
						s.Version++
						s.SetMain(blk.Hash, false)
						for t, evs := range w.TxOf {
							if len(evs) > 0 && evs[0].Block == blk {
								s.TxBlock[t] = ""
							}
						}
					case stage == 1 && kind == "main-chain" && detail == blk.Hash:
						stage = 2
						s.Version++ // a second, harmless state change: the forwarded message is then judged two versions after the block was last on the main chain
						s.SetHeight(s.Height + 1)
					}
				}
			})
			w.Tr(fmt.Sprintf("reobserve %s while its block %s is orphaned between the status answer and the main-chain answer", tx[:8], blk.Hash[:8]))
			ok := w.H.Reobserve(tx, 25*time.Second)
			w.Sim.WithLock(func() { w.Sim.OnRequest = nil })
			if !ok {
				vlib.CFinding("reobserve:request-not-handled-within-watchdog", map[string]interface{}{"script": desc, "trace": w.Trace})
				return
			}
			vlib.CCount("reobservation_requests", 1)
			vlib.CCount("reorg_during_reobservation", 1)
			vlib.CCount("reorgs", 1)
		case x == 7: // staggered confirmations inside one block, with a reorg in between
			var blk *alphsim.Block
			clLate := []uint8{2, 5, 10}[rng.Intn(3)]
			w.Sim.Mutate("emit-staggered", func(s *alphsim.Sim) {
				blk = w.NewBlock(s, false)
				w.EmitTx(s, blk, "transfer", 0, false)
				w.EmitTx(s, blk, []string{"transfer", "attest"}[rng.Intn(2)], clLate, false)
				if rng.Intn(2) == 0 {
					w.EmitTx(s, blk, "transfer", clLate+1, rng.Intn(2) == 0)
				}
			})
			w.Tr(fmt.Sprintf("emit staggered: block %s height %d with consistency levels 0 and %d", blk.Hash[:8], blk.Height, clLate))
			vlib.CCount("staggered_blocks", 1)
			if !wait(3) {
				break
			}
			reinclude := rng.Intn(2) == 0
			w.Sim.Mutate("reorg-staggered", func(s *alphsim.Sim) {
				s.SetMain(blk.Hash, false)
				var nb *alphsim.Block
				for tx, evs := range w.TxOf {
					if len(evs) == 0 || evs[0].Block != blk {
						continue
					}
					if !reinclude {
						s.TxBlock[tx] = ""
						continue
					}
					if nb == nil {
						nb = s.AddBlock(fmt.Sprintf("%064x", rng.Uint64()), blk.Height, blk.TsMs+7, true)
						w.Blocks = append(w.Blocks, nb)
					}
					var ne []*alphsim.Ev
					for _, e := range s.TxEvents[tx] {
						if e.Block == blk {
							x := s.Emit(e.Contract, nb, tx, e.EvIndex, e.Fields, e.Intent, e.Note+"(re-included)")
							if e.Contract == s.Core {
								ne = append(ne, x)
							}
						}
					}
					w.TxOf[tx] = ne
					s.TxBlock[tx] = nb.Hash
				}
			})
			w.Tr(fmt.Sprintf("reorg: block %s orphaned after its first event was forwarded, reinclude=%v", blk.Hash[:8], reinclude))
			vlib.CCount("reorgs", 1)
			wait(2)
			w.Sim.Mutate("advance", func(s *alphsim.Sim) { s.SetHeight(s.Height + int32(clLate) + 2) })
			w.Tr(fmt.Sprintf("advance height by %d", int32(clLate)+2))
		case x < 11:
			k := []int32{0, 1, 2, 5, 10, 210, 300}[rng.Intn(7)]
			w.Sim.Mutate("advance", func(s *alphsim.Sim) { s.SetHeight(s.Height + k) })
			w.Tr(fmt.Sprintf("advance height by %d", k))
		case (x == 24 || x == 25) && len(w.Txs) > 0: // a transaction is re-mined on the main chain where its script fails and emits nothing; its only message is in the orphaned block
			tx := w.Txs[len(w.Txs)-1-rng.Intn(minInt(3, len(w.Txs)))]
			var old *alphsim.Block
			w.Sim.WithLock(func() {
				if evs := w.TxOf[tx]; len(evs) > 0 && evs[0].Block.Main {
					old = evs[0].Block
				}
			})
			if old == nil {
				break
			}
			w.Sim.Mutate("reorg-remine-without-events", func(s *alphsim.Sim) {
				s.SetMain(old.Hash, false)
				nb := s.AddBlock(fmt.Sprintf("%064x", rng.Uint64()), old.Height, old.TsMs+7, true)
				w.Blocks = append(w.Blocks, nb)
				for t, evs := range w.TxOf {
					if len(evs) > 0 && evs[0].Block == old {
						s.TxBlock[t] = ""
					}
				}
				s.TxBlock[tx] = nb.Hash // confirmed in the new block, but no event was emitted there
				s.SetHeight(s.Height + 300)
			})
			w.Tr(fmt.Sprintf("reorg: block %s orphaned; tx %s re-mined in a main-chain block where it emits nothing; height +300; reobserve it", old.Hash[:8], tx[:8]))
			vlib.CCount("reorgs", 1)
			vlib.CCount("remined_without_events", 1)
			wait(2)
			if !w.H.Reobserve(tx, 25*time.Second) {
				vlib.CFinding("reobserve:request-not-handled-within-watchdog", map[string]interface{}{"script": desc, "trace": w.Trace})
				return
			}
			vlib.CCount("reobservation_requests", 1)
		case x < 14 && len(w.Blocks) > 0: // reorg: orphan a recent block, re-include (some of) its transactions
			b := w.Blocks[len(w.Blocks)-1-rng.Intn(minInt(3, len(w.Blocks)))]
			reinclude := rng.Intn(3) != 0
			w.Sim.Mutate("reorg", func(s *alphsim.Sim) {
				if !b.Main {
					return
				}
				s.SetMain(b.Hash, false)
				var nb *alphsim.Block
				for tx, evs := range w.TxOf {
					if len(evs) == 0 || evs[0].Block != b {
						continue
					}
					if !reinclude {
						s.TxBlock[tx] = ""
						continue
					}
					if nb == nil {
						nb = s.AddBlock(fmt.Sprintf("%064x", rng.Uint64()), b.Height, b.TsMs+7, true)
						w.Blocks = append(w.Blocks, nb)
					}
					var ne []*alphsim.Ev
					for _, e := range s.TxEvents[tx] {
						if e.Block == b {
							x := s.Emit(e.Contract, nb, tx, e.EvIndex, e.Fields, e.Intent, e.Note+"(re-included)")
							if e.Contract == s.Core {
								ne = append(ne, x)
							}
						}
					}
					w.TxOf[tx] = ne
					s.TxBlock[tx] = nb.Hash
				}
			})
			w.Tr(fmt.Sprintf("reorg: block %s orphaned, reinclude=%v", b.Hash[:8], reinclude))
			vlib.CCount("reorgs", 1)
		case x < 17 && len(w.Txs) > 0:
			tx := w.Txs[rng.Intn(len(w.Txs))]
			w.Tr("reobserve " + tx[:8])
			if !w.H.Reobserve(tx, 25*time.Second) {
				vlib.CFinding("reobserve:request-not-handled-within-watchdog", map[string]interface{}{"script": desc, "trace": w.Trace})
				return
			}
			vlib.CCount("reobservation_requests", 1)
		case x < 18 && len(w.Blocks) > 0: // flip a block off the main chain exactly when the watcher asks about it
			b := w.Blocks[len(w.Blocks)-1]
			done := false
			w.Sim.WithLock(func() {
				w.Sim.OnRequest = func(s *alphsim.Sim, kind string, ord int, detail string) {
					if !done && kind == "main-chain" && detail == b.Hash && b.Main {
						done = true
						s.Version++
						s.SetMain(b.Hash, false)
						for tx, evs := range w.TxOf {
							if len(evs) > 0 && evs[0].Block == b {
								s.TxBlock[tx] = ""
							}
						}
					}
				}
			})
			w.Tr("arm: orphan block " + b.Hash[:8] + " at the next main-chain query")
			vlib.CCount("flips_during_query", 1)
		default:
			kind := []string{"count", "page", "height", "header", "main-chain", "tx-status", "tx-events", "multicall"}[rng.Intn(8)]
			m := []string{"500", "garbage"}[rng.Intn(2)]
			w.Sim.WithLock(func() {
				if w.Sim.Faults[kind] == nil {
					w.Sim.Faults[kind] = map[int]string{}
				}
				w.Sim.Faults[kind][w.Sim.CountKind2(kind)+1+rng.Intn(3)] = m
			})
			faults++
			w.Tr(fmt.Sprintf("fault: %s on a coming %s request", m, kind))
			vlib.CCount("faults_injected", 1)
		}
		if !wait(2) {
			vlib.CInconclusive(fmt.Sprintf("watcher stopped polling after step %q (%s)", w.Trace[len(w.Trace)-1], desc))
			return
		}
	}
	// let everything confirm, then re-observe a few transactions once more
	w.Sim.Mutate("final-advance", func(s *alphsim.Sim) { s.SetHeight(s.Height + 300) })
	w.Tr("advance height by 300 (final)")
	wait(3)
	for i := 0; i < 3 && len(w.Txs) > 0; i++ {
		tx := w.Txs[rng.Intn(len(w.Txs))]
		w.Tr("reobserve " + tx[:8] + " (final)")
		w.H.Reobserve(tx, 25*time.Second)
		vlib.CCount("reobservation_requests", 1)
	}
	wait(2)
	for _, f := range w.H.JudgeSafety(desc) {
		f.Witness["trace"] = w.Trace
		vlib.CFinding(f.Class, f.Witness)
	}
	arr := w.H.ArrivalsCopy()
	for _, a := range arr {
		vlib.CCount("messages_forwarded_"+a.Path, 1)
	}
	vlib.CCount("scripts", 1)
	vlib.CCount("requests_served", int64(len(w.Sim.LogCopy())))
	vlib.CDistinct("scripts_distinct", fmt.Sprintf("%s/%v", desc, w.Trace))
	if idx == 0 {
		vlib.CSample(map[string]interface{}{"script": desc, "trace": w.Trace, "messages_forwarded": len(arr)})
	}
}

func minInt(a, b int) int {
	if a < b {
		return a
	}
	return b
}

func main() {
	flag.Parse()
	if *mode == "child" {
		for i := 0; i < *ccount; i++ {
			script(*cseed*1000+int64(i), i)
		}
		vlib.CDone()
		return
	}
	r := vlib.Start("C08", "exploration")
	self, _ := os.Executable()
	batches, per := r.Pick(12, 160), r.Pick(4, 8)
	r.RunChildren(self, batches, per, 16, 10*time.Minute)
	r.Count("evaluations", r.GetCount("scripts"))
	if r.GetCount("messages_forwarded_poll") == 0 || r.GetCount("messages_forwarded_reobserve") == 0 || r.GetCount("reorgs") == 0 {
		r.Inconclusive("the polling path, the re-observation path or a reorg was never exercised")
	}
	r.Assume("the Alephium node is simulated at its REST boundary (ten endpoints); chain states are versioned and a forwarded message is judged against the version current at its arrival or the one before (a decision may straddle one mutation)",
		"block timestamps are >= 10 minutes away from the wall-clock floor on either side, so the time-floor verdict never depends on jitter")
	r.Finish("evaluations", "scripts_distinct", "scripts over blocks, reorgs (orphaning with and without re-inclusion, also exactly at a main-chain query), height advances/stalls, consistency levels {0,1,2,10,204,205,206,254}, foreign senders, look-alike events of another contract in the same transaction, mismatching / unverifiable attestations, mainnet on/off, re-observation requests at every stage, HTTP 500 / malformed JSON on any endpoint; distinct non-trivial = distinct script traces", 20)
}
