// C18 - supervised services restart after failure and never run twice at once.
// Generated supervision trees (public API only: New, RunGroup, Signal) whose services follow
// per-incarnation scripts (fail with error / nil / panic, before or after signalling healthy;
// signal done; wait for cancellation and linger). Instrumented services keep a per-name running
// counter and an event log; oracles run over both. Race detector on.
package main

import (
	"context"
	"errors"
	"fmt"
	"math/rand"
	"runtime"
	"sort"
	"strings"
	"sync"
	"sync/atomic"
	"time"

	"github.com/alephium/wormhole-fork/node/pkg/supervisor"
	"go.uber.org/zap"
	"verif/harness/node/internal/vlib"
)

var r *vlib.Run

type behaviour struct {
	Kind          string // fail-error | fail-nil | fail-panic | wait | done
	AfterMs       int
	BeforeHealthy bool
}

type svc struct {
	tree         *tree
	name, dn     string
	parent       *svc
	groups       [][]*svc
	fails        []behaviour // incarnation i < len(fails) fails like this
	stable       behaviour   // wait | done
	lingerMs     int
	doneLingerMs int

	running int32
	incs    int32
}

type event struct {
	T    time.Duration
	DN   string
	Inc  int
	Kind string // enter exit fail cancelled done
}

type tree struct {
	mu          sync.Mutex
	start       time.Time
	events      []event
	nodes       []*svc
	desc        string
	viol        []string
	cancelledAt time.Duration
}

func (t *tree) log(dn string, inc int, kind string) {
	t.mu.Lock()
	t.events = append(t.events, event{time.Since(t.start), dn, inc, kind})
	t.mu.Unlock()
}

func (s *svc) runnable() supervisor.Runnable {
	return func(ctx context.Context) (err error) {
		inc := int(atomic.AddInt32(&s.incs, 1)) - 1
		if n := atomic.AddInt32(&s.running, 1); n > 1 {
			s.tree.mu.Lock()
			s.tree.viol = append(s.tree.viol, fmt.Sprintf("two-instances-concurrently|%s incarnation %d entered while %d instance(s) still running", s.dn, inc, n-1))
			s.tree.mu.Unlock()
		}
		s.tree.log(s.dn, inc, "enter")
		defer func() {
			atomic.AddInt32(&s.running, -1)
			s.tree.log(s.dn, inc, "exit")
		}()
		b := s.stable
		if inc < len(s.fails) {
			b = s.fails[inc]
		}
		fail := func() error {
			if b.Kind == "fail-wrapped-canceled" {
				// coincides with a cancellation of this very service? then it IS a cancellation
				if ctx.Err() != nil {
					s.tree.log(s.dn, inc, "cancelled")
					return ctx.Err()
				}
				s.tree.log(s.dn, inc, "fail-wc")
			}
			s.tree.log(s.dn, inc, "fail")
			switch b.Kind {
			case "fail-error":
				return errors.New("scripted failure")
			case "fail-wrapped-canceled": // e.g. a downstream call that was cancelled by its own deadline logic
				return fmt.Errorf("upstream request failed: %w", context.Canceled)
			case "fail-nil":
				return nil
			default:
				panic("scripted panic")
			}
		}
		waitOrCancel := func(ms int) bool { // true: cancelled first
			select {
			case <-ctx.Done():
				return true
			case <-time.After(time.Duration(ms) * time.Millisecond):
				return false
			}
		}
		cancelled := func() error {
			s.tree.log(s.dn, inc, "cancelled")
			time.Sleep(time.Duration(s.lingerMs) * time.Millisecond)
			return ctx.Err()
		}
		if strings.HasPrefix(b.Kind, "fail") && b.BeforeHealthy {
			if waitOrCancel(b.AfterMs) {
				return cancelled()
			}
			return fail()
		}
		for _, g := range s.groups {
			m := map[string]supervisor.Runnable{}
			for _, c := range g {
				m[c.name] = c.runnable()
			}
			if err := supervisor.RunGroup(ctx, m); err != nil {
				s.tree.mu.Lock()
				s.tree.viol = append(s.tree.viol, "run-group-error|"+s.dn+": "+err.Error())
				s.tree.mu.Unlock()
			}
		}
		supervisor.Signal(ctx, supervisor.SignalHealthy)
		switch b.Kind {
		case "wait":
			<-ctx.Done()
			return cancelled()
		case "done":
			supervisor.Signal(ctx, supervisor.SignalDone)
			s.tree.log(s.dn, inc, "done")
			// a runnable may still be winding down for a moment after it signalled completion
			time.Sleep(time.Duration(s.doneLingerMs) * time.Millisecond)
			return nil
		default:
			if waitOrCancel(b.AfterMs) {
				return cancelled()
			}
			return fail()
		}
	}
}

func genTree(rng *rand.Rand) *tree {
	t := &tree{}
	var mk func(parent *svc, name string, depth int) *svc
	total := 0
	mk = func(parent *svc, name string, depth int) *svc {
		total++
		s := &svc{tree: t, name: name, parent: parent, lingerMs: []int{0, 0, 5, 50, 300}[rng.Intn(5)]}
		if parent == nil {
			s.dn = "root"
		} else {
			s.dn = parent.dn + "." + name
		}
		nf := []int{0, 0, 1, 1, 2}[rng.Intn(5)]
		for i := 0; i < nf; i++ {
			s.fails = append(s.fails, behaviour{Kind: []string{"fail-error", "fail-nil", "fail-panic", "fail-wrapped-canceled"}[rng.Intn(4)], AfterMs: []int{0, 1, 20, 150, 600}[rng.Intn(5)], BeforeHealthy: rng.Intn(4) == 0})
		}
		s.stable = behaviour{Kind: "wait"}
		if rng.Intn(4) == 0 {
			s.stable = behaviour{Kind: "done"}
			s.doneLingerMs = []int{0, 0, 1, 5, 30}[rng.Intn(5)]
		}
		t.nodes = append(t.nodes, s)
		if depth < 3 && total < 22 {
			ng := rng.Intn(4 - depth)
			if parent == nil {
				ng = 1 + rng.Intn(3)
			}
			k := 0
			for g := 0; g < ng; g++ {
				var grp []*svc
				nm := 1 + rng.Intn(4-depth)
				for m := 0; m < nm && total < 22; m++ {
					grp = append(grp, mk(s, fmt.Sprintf("s%d", k), depth+1))
					k++
				}
				if len(grp) > 0 {
					s.groups = append(s.groups, grp)
				}
			}
		}
		return s
	}
	root := mk(nil, "root", 1)
	// the root never signals done/fails by nil in a way that ends the tree for good: keep it restartable like any other
	_ = root
	var d []string
	for _, n := range t.nodes {
		var fs []string
		for _, f := range n.fails {
			x := fmt.Sprintf("%s@%dms", f.Kind, f.AfterMs)
			if f.BeforeHealthy {
				x += "(pre-healthy)"
			}
			fs = append(fs, x)
		}
		gs := ""
		for _, g := range n.groups {
			gs += "{"
			for _, c := range g {
				gs += c.name + " "
			}
			gs += "}"
		}
		d = append(d, fmt.Sprintf("%s fails=%v then=%s linger=%dms done-linger=%dms groups=%s", n.dn, fs, n.stable.Kind, n.lingerMs, n.doneLingerMs, gs))
	}
	t.desc = strings.Join(d, "; ")
	return t
}

func dump() string {
	buf := make([]byte, 2<<20)
	n := runtime.Stack(buf, true)
	var keep []string
	for _, g := range strings.Split(string(buf[:n]), "\n\n") {
		if strings.Contains(g, "pkg/supervisor") {
			keep = append(keep, g)
		}
	}
	s := strings.Join(keep, "\n\n")
	if len(s) > 6000 {
		s = s[:6000]
	}
	return s
}

func (t *tree) tail(n int) []string {
	t.mu.Lock()
	defer t.mu.Unlock()
	var out []string
	st := 0
	if len(t.events) > n {
		st = len(t.events) - n
	}
	for _, e := range t.events[st:] {
		out = append(out, fmt.Sprintf("%6.3fs %s#%d %s", e.T.Seconds(), e.DN, e.Inc, e.Kind))
	}
	return out
}

func runTree(seed int64, idx int) {
	rng := rand.New(rand.NewSource(seed))
	t := genTree(rng)
	t.start = time.Now()
	ctx, cancel := context.WithCancel(context.Background())
	supervisor.New(ctx, zap.NewNop(), t.nodes[0].runnable())
	w := func(extra map[string]interface{}) map[string]interface{} {
		m := map[string]interface{}{"tree": t.desc, "seed": seed, "last_events": t.tail(60)}
		for k, v := range extra {
			m[k] = v
		}
		return m
	}
	earlyCancel := idx%3 == 2 // every third tree: the supervisor is cancelled while failures / back-offs are in progress
	if earlyCancel {
		time.Sleep(time.Duration(50+rng.Intn(900)) * time.Millisecond)
		cancelTree(t, cancel, w)
		r.Count("trees_cancelled_mid_flight", 1)
		r.Count("trees", 1)
		r.Distinct("trees_distinct", "early-cancel:"+t.desc)
		return
	}
	// ---- bounded progress: every scripted failure is finite, so the tree must become stable:
	// every "wait" service running exactly once in a non-failing incarnation, every "done" service done.
	stableSince := time.Time{}
	deadline := time.Now().Add(40 * time.Second)
	settled := false
	for time.Now().Before(deadline) {
		ok := true
		for _, n := range t.nodes {
			run := atomic.LoadInt32(&n.running)
			inc := int(atomic.LoadInt32(&n.incs))
			switch {
			case inc <= len(n.fails): // still has failing incarnations ahead or none run yet
				ok = false
			case n.stable.Kind == "wait" && run != 1:
				ok = false
			case n.stable.Kind == "done" && run != 0:
				ok = false
			}
		}
		if ok {
			if stableSince.IsZero() {
				stableSince = time.Now()
			} else if time.Since(stableSince) > 400*time.Millisecond {
				settled = true
				break
			}
		} else {
			stableSince = time.Time{}
		}
		time.Sleep(10 * time.Millisecond)
	}
	if !settled {
		var missing []string
		for _, n := range t.nodes {
			run := atomic.LoadInt32(&n.running)
			inc := int(atomic.LoadInt32(&n.incs))
			if inc <= len(n.fails) || (n.stable.Kind == "wait" && run != 1) || (n.stable.Kind == "done" && run != 0) {
				missing = append(missing, fmt.Sprintf("%s running=%d incarnations=%d scripted-failures=%d", n.dn, run, inc, len(n.fails)))
			}
		}
		r.Violation("service-not-restarted-within-bound", w(map[string]interface{}{"not_stable": missing, "supervisor_goroutines": dump(), "bound_s": 40}))
	} else {
		r.Count("trees_settled", 1)
	}
	// ---- oracles over the event log so far
	t.mu.Lock()
	evs := append([]event{}, t.events...)
	viol := append([]string{}, t.viol...)
	t.mu.Unlock()
	for _, v := range viol {
		p := strings.SplitN(v, "|", 2)
		r.Violation(p[0], w(map[string]interface{}{"detail": p[1]}))
	}
	byDN := map[string]*svc{}
	for _, n := range t.nodes {
		byDN[n.dn] = n
	}
	// group cancellation: after a failure of X every group sibling that was running is cancelled (sees ctx.Done) soon
	for i, e := range evs {
		if e.Kind != "fail" {
			continue
		}
		r.Count("failures_observed", 1)
		x := byDN[e.DN]
		if x.parent == nil {
			continue
		}
		var sibs []*svc
		for _, g := range x.parent.groups {
			in := false
			for _, c := range g {
				if c == x {
					in = true
				}
			}
			if in {
				sibs = g
			}
		}
		// the siblings and everything below them: a sibling that has signalled DONE may still have children running,
		// and they belong to the group's fate as well
		var cands []*svc
		for _, sb := range sibs {
			if sb == x {
				continue
			}
			cands = append(cands, sb)
			for _, d := range t.nodes {
				if strings.HasPrefix(d.dn, sb.dn+".") {
					cands = append(cands, d)
				}
			}
		}
		for _, sb := range cands {
			below := !containsSvc(sibs, sb)
			// was the service running (entered, not exited) at the time of the failure, in a waiting incarnation?
			lastEnter, inc := -1, -1
			for j := 0; j < i; j++ {
				if evs[j].DN == sb.dn {
					switch evs[j].Kind {
					case "enter":
						lastEnter, inc = j, evs[j].Inc
					case "exit":
						lastEnter = -1
					}
				}
			}
			if lastEnter < 0 || inc < len(sb.fails) || sb.stable.Kind != "wait" {
				continue
			}
			if below {
				// an ancestor between the sibling and this service that is itself failing / restarting at that moment
				// re-creates it anyway: only judge services whose chain up to the sibling is stable
				stableChain := true
				for p := sb.parent; p != nil && !containsSvc(sibs, p); p = p.parent {
					if len(p.fails) > 0 {
						stableChain = false
					}
				}
				if !stableChain {
					continue
				}
				r.Count("sibling_subtree_cancellations_checked", 1)
			}
			r.Count("sibling_cancellations_checked", 1)
			seen := false
			for j := i; j < len(evs); j++ {
				if evs[j].DN == sb.dn && evs[j].Inc == inc && (evs[j].Kind == "cancelled" || evs[j].Kind == "exit") {
					seen = true
					if evs[j].T-e.T > 5*time.Second {
						r.Violation("group-sibling-cancelled-too-late", w(map[string]interface{}{"failed": e.DN, "sibling": sb.dn, "delay": (evs[j].T - e.T).String()}))
					}
					break
				}
			}
			if !seen {
				cls := "group-sibling-not-cancelled-after-failure"
				if below {
					cls = "service-below-a-group-sibling-not-cancelled-after-failure"
				}
				r.Violation(cls, w(map[string]interface{}{"failed": e.DN, "failed_at": e.T.String(), "sibling": sb.dn, "sibling_incarnation": inc}))
			}
		}
	}
	// restart back-off: a failed service is not re-entered instantly (at least the minimum back-off of 250 ms)
	for i, e := range evs {
		if e.Kind != "fail" {
			continue
		}
		wc := false
		for j := i - 1; j >= 0; j-- { // the service's own previous event (events of other services may be logged in between)
			if evs[j].DN == e.DN {
				wc = evs[j].Kind == "fail-wc"
				break
			}
		}
		if wc {
			continue // see fail(): may legitimately be booked as a cancellation
		}
		for j := i + 1; j < len(evs); j++ {
			// a restart of an ancestor re-creates this service as a fresh node (fresh back-off): not judged
			if evs[j].Kind == "enter" && strings.HasPrefix(e.DN, evs[j].DN+".") {
				break
			}
			if evs[j].DN == e.DN && evs[j].Kind == "enter" {
				r.Count("restarts_observed", 1)
				if d := evs[j].T - e.T; d < 200*time.Millisecond {
					r.Violation("restarted-without-back-off", w(map[string]interface{}{"service": e.DN, "delay": d.String()}))
				}
				break
			}
		}
	}
	// done services are left alone: re-entries only if something in their restart cone failed in between
	for _, n := range t.nodes {
		if n.stable.Kind != "done" {
			continue
		}
		cone := map[string]bool{}
		for a := n; a != nil; a = a.parent {
			cone[a.dn] = true
			if a.parent != nil {
				for _, g := range a.parent.groups {
					in := false
					for _, c := range g {
						if c == a {
							in = true
						}
					}
					if in {
						for _, c := range g {
							cone[c.dn] = true
						}
					}
				}
			}
		}
		lastDone := time.Duration(-1)
		for _, e := range evs {
			if e.DN == n.dn && e.Kind == "done" {
				lastDone = e.T
			}
			if e.DN == n.dn && e.Kind == "enter" && lastDone >= 0 {
				r.Count("done_reentries_checked", 1)
				caused := false
				for _, f := range evs {
					if f.Kind == "fail" && cone[f.DN] && f.T >= lastDone-time.Second && f.T <= e.T {
						caused = true
					}
					// an ancestor that was restarted between the completion and the re-entry re-creates the service whatever
					// the time of the failure that led to that restart (a child may even complete while its dead parent is
					// still sitting out its back-off: its own pending restart fires in between)
					if f.Kind == "enter" && f.DN != n.dn && strings.HasPrefix(n.dn, f.DN+".") && f.T >= lastDone && f.T <= e.T {
						caused = true
					}
				}
				if !caused {
					r.Violation("done-service-restarted-without-cause", w(map[string]interface{}{"service": n.dn, "reentered_at": e.T.String()}))
				}
				lastDone = -1
			}
		}
	}
	nEv := cancelTree(t, cancel, w)
	r.Count("trees", 1)
	r.Count("events", int64(nEv))
	r.Count("services", int64(len(t.nodes)))
	r.Distinct("trees_distinct", t.desc)
	if idx < 2 {
		r.Sample(map[string]interface{}{"tree": t.desc, "events_head": t.tail(1000)[:minInt(30, nEv)]})
	}
}

// cancelTree cancels the supervisor's context and checks that every instance stops and nothing starts again.
func cancelTree(t *tree, cancel context.CancelFunc, w func(map[string]interface{}) map[string]interface{}) int {
	cancelAt := time.Since(t.start)
	cancel()
	stopDeadline := time.Now().Add(15 * time.Second)
	for time.Now().Before(stopDeadline) {
		all := true
		for _, n := range t.nodes {
			if atomic.LoadInt32(&n.running) != 0 {
				all = false
			}
		}
		if all {
			break
		}
		time.Sleep(5 * time.Millisecond)
	}
	var still []string
	for _, n := range t.nodes {
		if atomic.LoadInt32(&n.running) != 0 {
			still = append(still, n.dn)
		}
	}
	if len(still) > 0 {
		r.Violation("service-still-running-after-supervisor-cancel", w(map[string]interface{}{"still_running": still}))
	}
	time.Sleep(1500 * time.Millisecond)
	t.mu.Lock()
	evsAfter := append([]event{}, t.events...)
	t.mu.Unlock()
	lastFail := map[string]time.Duration{}
	for _, e := range evsAfter {
		if e.Kind == "fail" {
			lastFail[e.DN] = e.T
		}
		if e.Kind != "enter" || e.T <= cancelAt {
			continue
		}
		// A schedule request accepted just before the cancel may still start its goroutine a moment
		// later. A restart whose back-off ran out after the cancel must not happen at all: the
		// instance entered well after the cancel and a whole back-off (>= 200 ms) after its failure.
		f, failed := lastFail[e.DN]
		if e.T > cancelAt+time.Second || (failed && f < cancelAt && e.T-f >= 200*time.Millisecond && e.T > cancelAt+100*time.Millisecond) {
			r.Violation("service-started-after-supervisor-cancel", w(map[string]interface{}{"service": e.DN, "entered": e.T.String(), "cancelled": cancelAt.String(), "failed_at": f.String()}))
		}
	}
	nEv := len(evsAfter)
	return nEv
}

func minInt(a, b int) int {
	if a < b {
		return a
	}
	return b
}

func main() {
	r = vlib.Start("C18", "exploration")
	n := r.Pick(96, 2400)
	var wg sync.WaitGroup
	sem := make(chan struct{}, 16)
	for i := 0; i < n; i++ {
		wg.Add(1)
		sem <- struct{}{}
		go func(i int) {
			defer wg.Done()
			defer func() { <-sem }()
			runTree(r.Seed*100000+int64(i), i)
		}(i)
	}
	wg.Wait()
	r.Count("evaluations", r.GetCount("trees"))
	if r.GetCount("failures_observed") == 0 || r.GetCount("restarts_observed") == 0 || r.GetCount("sibling_cancellations_checked") == 0 {
		r.Inconclusive("no failure / restart / sibling cancellation was observed")
	}
	_ = sort.Strings
	r.Assume("\"eventually restarted\" is restated as bounded progress: all scripted failures are finite, so within 40 s every waiting service must be running exactly once and every done service be done; 40 s is far above the back-off ceiling reachable by the scripts (<= 3 consecutive pre-healthy failures, < 5 s)",
		"panic capture on (no WithPropagatePanic)")
	r.Finish("evaluations", "trees_distinct", "random trees of depth <= 3 (<= 22 services, 1-3 groups per node, 1-3 members per group); per-incarnation scripts: fail by error / nil return / panic after 0-600 ms, before or after signalling healthy, then wait-until-cancelled (lingering 0-300 ms) or signal done; 16 trees concurrently under -race; distinct non-trivial = distinct tree+script descriptions", 20)
}

func containsSvc(l []*svc, x *svc) bool {
	for _, y := range l {
		if y == x {
			return true
		}
	}
	return false
}
