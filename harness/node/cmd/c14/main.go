// C14 - pending attestations are retried, then expired, on a bounded schedule.
// Aggregation entries of four kinds are created through the real handlers; handleCleanup is
// driven by tick scripts under a logical clock (VerifAge shifts the entries' timestamps); the
// outbound gossip and re-observation-request channels and the aggregation map are observed
// after every tick.
package main

import (
	"bytes"
	"encoding/hex"
	"fmt"
	"math/rand"
	"sync"
	"sync/atomic"
	"time"

	"github.com/alephium/wormhole-fork/node/pkg/common"
	"github.com/alephium/wormhole-fork/node/pkg/db"
	gossipv1 "github.com/alephium/wormhole-fork/node/pkg/proto/gossip/v1"
	"github.com/alephium/wormhole-fork/node/pkg/vaa"
	ethcommon "github.com/ethereum/go-ethereum/common"
	"verif/harness/node/internal/proc"
	"verif/harness/node/internal/vlib"
)

const (
	retryS  = 300
	settleS = 30
	hourS   = 3600
	budget  = 14400
)

type entry struct {
	kind     string // pending | late | unknown | submitted
	digest   string
	msg      *proc.Msg
	born     int64 // logical second of creation
	ownBytes []byte
	retrans  []int64 // logical times of retransmissions
	requests int
	gone     int64 // logical time at which it was first seen absent (-1: still present)
	injected bool  // signed through a governance injection (no originating transaction)
}

var r *vlib.Run

func main() {
	r = vlib.Start("C14", "exploration")
	rng := r.Rand("scenarios")
	store, cleanup, err := proc.OpenScratchDB()
	if err != nil {
		r.Inconclusive("store: " + err.Error())
		r.Finish("scenarios", "scripts", "", 1)
	}
	defer cleanup()
	nS := r.Pick(400, 8000)
	serial := uint64(r.Seed&0xffff)<<24 | 3<<40
	for s := 0; s < nS; s++ {
		long := s == 0 // one full-budget run per check
		runScenario(rng, store, serial+uint64(s), long, s)
	}
	for i := 0; i < r.Pick(8, 60); i++ {
		runLoopCleanup(rng, store, serial+uint64(nS+i))
	}
	if r.GetCount("retransmissions") == 0 || r.GetCount("budget_exhausted_entries") == 0 || r.GetCount("entries_late") == 0 {
		r.Inconclusive("a class of entries or the retry budget was never exercised")
	}
	r.Assume("logical time = sum of VerifAge shifts; real elapsed time of a scenario is < 1 s until every age-based threshold has been crossed (otherwise the scenario is discarded as inconclusive)",
		"bounds are envelopes: retransmissions >= 5 min apart and overdue only after 5 min + 2 tick gaps; removal bounds 30 s / 5 min / 1 h + 2 ticks")
	r.Finish("scenarios", "scripts", "entries of four kinds (observed-unsubmitted, observed with a stored quorum VAA, unknown digest with 1..3 of 4 signatures, submitted) created at different logical times through the real handlers; a guardian-set change between two ticks in a third of the scenarios (node dropped, set grown, strangers); tick scripts: regular 30 s ticks, irregular gaps 1 s..3 h, single stalls up to 1300 h, full request queue, one full 14400-retry run; plus the cleanup branch of the real Run loop (15 ms ticker through a hook) with an aged pending entry while two feeders keep the observation queue more than half full; distinct non-trivial = distinct (entry kinds, tick script) combinations", 50)
}

// runLoopCleanup: the schedule is driven by the cleanup branch of the real Run loop, so it also has to hold there - in
// particular while gossip keeps the observation queue busy. The real Run loop (production queue capacity) gets a
// pending own observation; the entry is aged past the retry time while the loop is idle; the cleanup ticker is set to
// 15 ms (hook) and a feeder keeps the observation queue more than half full with observations that are dropped on
// arrival. Within the feeding period (>= 60 ticks) the own observation must be re-broadcast.
func runLoopCleanup(rng *rand.Rand, store *db.Database, serial uint64) {
	rig, err := proc.New(proc.Options{Key: vlib.Key(proc.NodeKey), DB: store, Run: true, ObsvCap: proc.ObsvCap})
	if err != nil {
		r.InconclusiveCase("rig: " + err.Error())
		return
	}
	defer rig.Close()
	g := &proc.GSet{Index: 0, Pool: []int{proc.NodeKey, 1, 2, 3}}
	send := func(f func()) bool {
		done := make(chan struct{})
		go func() { f(); close(done) }()
		select {
		case <-done:
			return true
		case <-time.After(10 * time.Second):
			return false
		}
	}
	m := proc.GenMsg(rng, serial, 0)
	if !send(func() { rig.SetC <- g.Common() }) || !send(func() { rig.LockC <- m.Pub }) {
		r.InconclusiveCase("run loop did not take the set / the message")
		return
	}
	// barrier: two rendezvous on the unbuffered set channel - after the second one the handler of the first has returned
	barrier := func() bool {
		return send(func() { rig.SetC <- g.Common() }) && send(func() { rig.SetC <- g.Common() })
	}
	if !barrier() {
		r.InconclusiveCase("run loop stopped taking events")
		return
	}
	var own []byte
	for _, o := range rig.DrainSend() {
		if o.Kind == "obs" && hex.EncodeToString(o.Obs.Hash) == hex.EncodeToString(m.Digest) {
			own = o.Raw
		}
	}
	if own == nil {
		r.InconclusiveCase("run loop: no own observation for the message")
		return
	}
	time.Sleep(5 * time.Millisecond) // the loop is back in its select (nothing else is sent to it)
	rig.P.VerifAge(6 * time.Minute)
	rig.P.VerifResetCleanupTicker(15 * time.Millisecond)
	stop := make(chan struct{})
	var fed int64
	var wg sync.WaitGroup
	busy := rng.Intn(4) != 0 // a quarter of the runs without gossip load (control)
	for f := 0; f < 2 && busy; f++ {
		wg.Add(1)
		go func() {
			defer wg.Done()
			junk := &gossipv1.SignedObservation{Addr: make([]byte, 20), Hash: make([]byte, 32), Signature: make([]byte, 65), MessageId: "load"}
			for {
				select {
				case <-stop:
					return
				case rig.ObsvC <- junk:
					atomic.AddInt64(&fed, 1)
				}
			}
		}()
	}
	retrans := 0
	deadline := time.After(1500 * time.Millisecond)
loop:
	for {
		select {
		case raw := <-rig.SendC:
			if bytes.Equal(raw, own) {
				retrans++
				break loop
			}
		case <-deadline:
			break loop
		}
	}
	close(stop)
	wg.Wait()
	r.Count("run_loop_cleanup_scenarios", 1)
	r.Count("run_loop_observations_fed_during_ticks", atomic.LoadInt64(&fed))
	switch {
	case retrans > 0:
		r.Count("run_loop_retransmissions_seen", 1)
	case busy && atomic.LoadInt64(&fed) < 200:
		r.InconclusiveCase("run loop was not scheduled enough to judge (observations taken: " + fmt.Sprint(atomic.LoadInt64(&fed)) + ")")
	default:
		r.Violation("run-loop:retransmission-overdue-while-the-cleanup-ticker-fires", map[string]interface{}{"gossip_load": busy, "observations_taken_by_the_loop": atomic.LoadInt64(&fed),
			"entry_age": "6 min (retry time 5 min)", "ticker_period": "15 ms", "waited": "1.5 s"})
	}
}

func runScenario(rng *rand.Rand, store *db.Database, serial uint64, long bool, sIdx int) {
	reqCap := []int{0, 1, 2, common.ObsvReqChannelSize}[rng.Intn(4)]
	if long {
		reqCap = 1
	}
	rig, err := proc.New(proc.Options{Key: vlib.Key(proc.NodeKey), DB: store, ObsvReqCap: maxInt(reqCap, 1)})
	if err != nil {
		r.InconclusiveCase("rig: " + err.Error())
		return
	}
	defer rig.Close()
	fillReq := reqCap == 0 // emulate a permanently full queue by never draining a 1-slot queue
	start := time.Now()
	var T int64
	age := func(sec int64) {
		rig.P.VerifAge(time.Duration(sec) * time.Second)
		T += sec
	}
	// guardian set of 4 with the node at a random position: own signature alone never reaches quorum (q=3)
	g := &proc.GSet{Index: uint32(rng.Intn(3)), Pool: []int{1, 2, 3}}
	pos := rng.Intn(4)
	g.Pool = append(g.Pool[:pos], append([]int{proc.NodeKey}, g.Pool[pos:]...)...)
	rig.P.VerifSetGuardianSet(g.Common())
	var ents []*entry
	nEnt := 1 + rng.Intn(5)
	if long {
		nEnt = 2
	}
	kinds := []string{"pending", "late", "unknown", "submitted"}
	desc := ""
	for j := 0; j < nEnt; j++ {
		kind := kinds[rng.Intn(4)]
		if long {
			kind = "pending"
		}
		m := proc.GenMsg(rng, serial, j)
		e := &entry{kind: kind, digest: hex.EncodeToString(m.Digest), msg: m, born: T, gone: -1}
		deliverOwn := func() {
			rig.P.VerifHandleMessage(rig.Ctx, m.Pub)
			for _, o := range rig.DrainSend() {
				if o.Kind == "obs" {
					e.ownBytes = o.Raw
					if lb := rig.TakeLoopback(5 * time.Second); lb != nil {
						rig.P.VerifHandleObservation(rig.Ctx, lb)
					}
				}
			}
		}
		if kind == "pending" && !long && rng.Intn(3) == 0 {
			// the node's own signature can also stem from an operator's governance injection: no chain transaction behind it,
			// same retry budget ("a message the node has signed")
			mp := *m.Pub
			mp.EmitterChain, mp.EmitterAddress, mp.TxHash = proc.GovChain, proc.GovEmitter, ethcommon.Hash{}
			m = proc.NewMsg(&mp)
			e.msg, e.digest, e.injected = m, hex.EncodeToString(m.Digest), true
			v := &vaa.VAA{Version: 1, GuardianSetIndex: g.Index, Timestamp: mp.Timestamp, Nonce: mp.Nonce, Sequence: mp.Sequence, ConsistencyLevel: mp.ConsistencyLevel,
				EmitterChain: mp.EmitterChain, EmitterAddress: mp.EmitterAddress, TargetChain: mp.TargetChain, Payload: mp.Payload}
			rig.P.VerifHandleInjection(rig.Ctx, v)
			for _, o := range rig.DrainSend() {
				if o.Kind == "obs" {
					e.ownBytes = o.Raw
					if lb := rig.TakeLoopback(5 * time.Second); lb != nil {
						rig.P.VerifHandleObservation(rig.Ctx, lb)
					}
				}
			}
			r.Count("entries_pending_injected", 1)
			kind = "pending-injected"
		}
		switch kind {
		case "pending-injected":
			kind = "pending"
		case "pending":
			deliverOwn()
			if rng.Intn(2) == 0 { // one peer signature, still below quorum
				rig.P.VerifHandleObservation(rig.Ctx, proc.MkObs(m, m.Digest, 1, "valid", rng, ethcommon.Address{}))
			}
		case "late":
			rig.P.VerifHandleInbound(rig.Ctx, &gossipv1.SignedVAAWithQuorum{Vaa: proc.MkVAA(m.Body, g.Index, g, []int{0, 1, 2}, -1)})
			deliverOwn()
		case "unknown":
			// one, two or all three other guardians have signed a digest the node has never observed (three is a
			// quorum of the set of four: consensus without this node)
			ns := 1 + rng.Intn(3)
			for i := 1; i <= ns; i++ {
				k := g.Pool[(pos+i)%4]
				rig.P.VerifHandleObservation(rig.Ctx, proc.MkObs(m, m.Digest, k, "valid", rng, ethcommon.Address{}))
			}
			r.Count(fmt.Sprintf("entries_unknown_with_%d_signatures", ns), 1)
		case "submitted":
			deliverOwn()
			for _, k := range g.Pool {
				if k != proc.NodeKey {
					rig.P.VerifHandleObservation(rig.Ctx, proc.MkObs(m, m.Digest, k, "valid", rng, ethcommon.Address{}))
				}
			}
		}
		rig.DrainSend()
		rig.DrainReq()
		ents = append(ents, e)
		desc += kind[:1]
		r.Count("entries_"+kind, 1)
		if rng.Intn(2) == 0 {
			age(int64(1 + rng.Intn(20)))
		}
	}
	// sanity: all entries exist now
	snap := map[string]bool{}
	for _, se := range rig.P.VerifSnapshot() {
		snap[se.Digest] = true
	}
	for _, e := range ents {
		if !snap[e.digest] {
			r.InconclusiveCase("entry of kind " + e.kind + " was not created")
			return
		}
	}
	// ---- tick script
	var gaps []int64
	script := "regular30"
	switch {
	case long:
		script = "full-budget"
		for i := 0; i < budget+40; i++ {
			gaps = append(gaps, 301)
		}
	default:
		switch rng.Intn(4) {
		case 0:
			for i := 0; i < 150; i++ {
				gaps = append(gaps, 30)
			}
		case 1:
			script = "irregular"
			opts := []int64{1, 7, 29, 31, 60, 119, 240, 299, 301, 600, 1800, 3599, 3601, 10800}
			for i := 0; i < 60; i++ {
				gaps = append(gaps, opts[rng.Intn(len(opts))])
			}
		case 2:
			script = "stall"
			for i := 0; i < 5+rng.Intn(20); i++ {
				gaps = append(gaps, 30)
			}
			gaps = append(gaps, int64(3600*(1+rng.Intn(1300))))
			for i := 0; i < 30; i++ {
				gaps = append(gaps, 30)
			}
		default:
			script = "mixed"
			for i := 0; i < 80; i++ {
				if rng.Intn(5) == 0 {
					gaps = append(gaps, int64(60+rng.Intn(4000)))
				} else {
					gaps = append(gaps, 30)
				}
			}
		}
		// finish with enough regular ticks for every bound to pass
		for i := 0; i < 6; i++ {
			gaps = append(gaps, 1801)
		}
	}
	// the guardian set may change between two ticks: the node is dropped from it, the set grows around it, or it is
	// replaced by strangers. Entries keep the set they were observed under; the retry / expiry schedule does not depend
	// on the current set.
	rotAt, rotKind := -1, ""
	if !long && rng.Intn(3) == 0 {
		rotAt = rng.Intn(14)
		rotKind = []string{"node-dropped", "node-dropped", "grown-around-node", "strangers-without-node", "single-other-guardian"}[rng.Intn(5)]
		desc += "/rotation:" + rotKind
	}
	rotate := func() {
		g2 := &proc.GSet{Index: g.Index + 1}
		switch rotKind {
		case "node-dropped":
			g2.Pool = []int{1, 2, 3}
		case "grown-around-node":
			g2.Pool = []int{1, 2, proc.NodeKey, 3, 4, 5, 6}
		case "strangers-without-node":
			g2.Pool = []int{11, 12, 13, 14, 15}
		default:
			g2.Pool = []int{2}
		}
		rig.P.VerifSetGuardianSet(g2.Common())
		r.Count("rotations_between_ticks_"+rotKind, 1)
	}
	desc += "/" + script + fmt.Sprintf("/req%d", reqCap)
	var maxGap int64
	thresholdsPassed := false
	var realAtThresholds time.Duration
	witness := func(e *entry, extra map[string]interface{}) map[string]interface{} {
		w := map[string]interface{}{"scenario": desc, "entry_kind": e.kind, "born": e.born, "now": T, "retransmissions": len(e.retrans), "script": script, "gaps_head": head(gaps, 25)}
		if n := len(e.retrans); n > 0 {
			w["last_retransmissions"] = e.retrans[maxInt(0, n-4):]
		}
		for k, v := range extra {
			w[k] = v
		}
		return w
	}
	stored := func(e *entry) bool {
		_, err := store.GetSignedVAABytes(e.msg.VID)
		return err == nil
	}
	for ti, gsec := range gaps {
		if gsec > maxGap {
			maxGap = gsec
		}
		if ti == rotAt {
			rotate()
		}
		// the node's own re-observation request makes the watcher observe the transaction again: the message comes in a
		// second (third, ...) time while its entry is being retried. The schedule and the budget are those of the entry.
		if (long && ti%700 == 350) || (!long && rng.Intn(12) == 0) {
			for _, e := range ents {
				if e.kind == "pending" && !e.injected && e.gone < 0 && len(e.retrans) > 0 {
					rig.P.VerifHandleMessage(rig.Ctx, e.msg.Pub)
					for _, o := range rig.DrainSend() {
						if o.Kind == "obs" {
							if lb := rig.TakeLoopback(5 * time.Second); lb != nil {
								rig.P.VerifHandleObservation(rig.Ctx, lb)
							}
						}
					}
					rig.DrainSend()
					rig.DrainReq()
					r.Count("reobservations_of_entries_under_retry", 1)
				}
			}
		}
		age(gsec)
		if fillReq {
			select {
			case rig.ObsvReqC <- &gossipv1.ObservationRequest{ChainId: 9999}:
			default:
			}
		}
		var pv interface{}
		func() {
			defer func() { pv = recover() }()
			rig.P.VerifHandleCleanup(rig.Ctx)
		}()
		if pv != nil {
			r.Violation("cleanup-panic", map[string]interface{}{"panic": fmt.Sprint(pv), "scenario": desc})
			return
		}
		r.Count("ticks", 1)
		outs := rig.DrainSend()
		reqs := rig.DrainReq()
		present := map[string]proc2{}
		for _, se := range rig.P.VerifSnapshot() {
			present[se.Digest] = proc2{se.RetryCount}
		}
		if !thresholdsPassed && T-ents[len(ents)-1].born > hourS+2*maxGap {
			thresholdsPassed = true
			realAtThresholds = time.Since(start)
		}
		for _, e := range ents {
			// retransmissions of this entry in this tick
			n := 0
			for _, o := range outs {
				if o.Kind == "obs" && hex.EncodeToString(o.Obs.Hash) == e.digest {
					n++
					if !bytes.Equal(o.Raw, e.ownBytes) {
						r.Violation("retransmission-differs-from-original-observation", witness(e, nil))
					}
				}
			}
			nreq := 0
			for _, q := range reqs {
				if q.ChainId == uint32(e.msg.Pub.EmitterChain) && bytes.Equal(q.TxHash, e.msg.Pub.TxHash.Bytes()) {
					nreq++
				}
			}
			if n > 1 {
				r.Violation("retransmitted-twice-in-one-tick", witness(e, nil))
			}
			if n > 0 && e.kind != "pending" && !(e.kind == "late") {
				r.Violation("retransmission-for-"+e.kind+"-entry", witness(e, nil))
			}
			if n > 0 {
				r.Count("retransmissions", 1)
				if len(e.retrans) > 0 && T-e.retrans[len(e.retrans)-1] < retryS {
					r.Violation("retransmissions-less-than-5min-apart", witness(e, map[string]interface{}{"gap": T - e.retrans[len(e.retrans)-1]}))
				}
				if len(e.retrans) == 0 && T-e.born < retryS {
					r.Violation("first-retransmission-before-5min", witness(e, nil))
				}
				e.retrans = append(e.retrans, T)
				if !e.injected && !fillReq && reqCap > 0 && nreq == 0 && len(reqs) < reqCap {
					r.Violation("retransmission-without-reobservation-request", witness(e, map[string]interface{}{"requests_in_tick": len(reqs)}))
				}
				if nreq > 0 {
					e.requests++
					r.Count("reobservation_requests", 1)
				}
			} else if nreq > 0 {
				r.Violation("reobservation-request-without-retransmission", witness(e, nil))
			}
			_, here := present[e.digest]
			if !here && e.gone < 0 {
				e.gone = T
				r.Count("removals_"+e.kind, 1)
				if e.kind == "pending" {
					if len(e.retrans) >= budget {
						r.Count("budget_exhausted_entries", 1)
					} else if !stored(e) {
						r.Violation("observed-entry-discarded-before-retry-budget-spent", witness(e, map[string]interface{}{"removed_at": T}))
					}
				}
			}
			if here && e.gone >= 0 {
				r.Violation("entry-reappeared", witness(e, nil))
			}
			if !here {
				continue
			}
			ageE := T - e.born
			switch e.kind {
			case "pending":
				last := e.born
				if len(e.retrans) > 0 {
					last = e.retrans[len(e.retrans)-1]
				}
				if len(e.retrans) > budget {
					r.Violation("retry-budget-exceeded", witness(e, nil))
				}
				if len(e.retrans) < budget && n == 0 && T-last >= retryS+2*maxGap && ti >= 2 {
					r.Violation("retransmission-overdue", witness(e, map[string]interface{}{"since_last": T - last, "max_tick_gap": maxGap}))
				}
				if len(e.retrans) >= budget && T-e.retrans[len(e.retrans)-1] > 2*maxGap && ti >= 2 {
					r.Violation("exhausted-entry-not-removed", witness(e, nil))
				}
			case "late":
				if ageE > settleS && ti >= 1 {
					r.Violation("late-entry-with-stored-VAA-not-removed-after-settlement", witness(e, map[string]interface{}{"age": ageE}))
				}
			case "unknown":
				if ageE >= retryS+2*maxGap && ti >= 2 {
					r.Violation("unknown-digest-entry-outlives-5min", witness(e, map[string]interface{}{"age": ageE}))
				}
			case "submitted":
				if ageE >= hourS+2*maxGap && ti >= 2 {
					r.Violation("submitted-entry-outlives-1h", witness(e, map[string]interface{}{"age": ageE}))
				}
			}
		}
	}
	if !thresholdsPassed {
		realAtThresholds = time.Since(start)
	}
	if realAtThresholds > 900*time.Millisecond {
		r.Count("scenarios_discarded_slow", 1)
		return
	}
	// after the final script nothing may be older than its class bound
	for _, se := range rig.P.VerifSnapshot() {
		for _, e := range ents {
			if e.digest == se.Digest && e.kind != "pending" {
				r.Violation("entry-alive-after-final-script:"+e.kind, witness(e, nil))
			}
		}
	}
	r.Count("scenarios", 1)
	r.Distinct("scripts", desc)
	if sIdx == 1 || sIdx == 2 {
		var es []map[string]interface{}
		for _, e := range ents {
			es = append(es, map[string]interface{}{"kind": e.kind, "born": e.born, "retransmitted_at": head(e.retrans, 8), "removed_at": e.gone})
		}
		r.Sample(map[string]interface{}{"scenario": desc, "tick_gaps_head": head(gaps, 20), "entries": es})
	}
	if long {
		r.Extra("full_budget_run", map[string]interface{}{"retransmissions": len(ents[0].retrans), "removed_at_logical_s": ents[0].gone, "real_seconds": time.Since(start).Seconds()})
	}
}

type proc2 struct{ retry uint }

func head(a []int64, n int) []int64 {
	if len(a) > n {
		return a[:n]
	}
	return a
}

func maxInt(a, b int) int {
	if a > b {
		return a
	}
	return b
}
