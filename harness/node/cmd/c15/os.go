package main

import "os"

func osReadFile(p string) ([]byte, error) { return os.ReadFile(p) }
