// C15 - governance requests become exactly the VAA the contracts parse, or are rejected.
// The real InjectGovernanceVAA (hook-constructed admin service) is called with generated
// requests of all nine kinds; the resulting VAA is parsed by interpreters built at run time from
// governance.ral / token_bridge_governance.ral and every requested value is compared as an integer.
package main

import (
	"bytes"
	"context"
	"encoding/binary"
	"encoding/hex"
	"fmt"
	"math/big"
	"math/rand"
	"regexp"
	"strings"
	"time"

	"github.com/alephium/wormhole-fork/node/cmd/guardiand"
	nodev1 "github.com/alephium/wormhole-fork/node/pkg/proto/node/v1"
	"github.com/alephium/wormhole-fork/node/pkg/vaa"
	ethcommon "github.com/ethereum/go-ethereum/common"
	"go.uber.org/zap"
	"verif/harness/node/internal/csrc"
	"verif/harness/node/internal/proc"
	"verif/harness/node/internal/vlib"
)

var r *vlib.Run

type contracts struct {
	core, tb *csrc.Ralph
}

// kind descriptors: which contract function parses the payload, which module constant
type kindInfo struct {
	name   string
	ral    *csrc.Ralph
	fn     string
	module string // constant name
	action csrc.Value
}

func actionOf(ral *csrc.Ralph, src, fn string) (csrc.Value, error) {
	// the ActionId the function passes to parseAndVerifyGovernanceVAA
	re := regexp.MustCompile(`(?s)fn\s+` + fn + `\b.*?parseAndVerifyGovernanceVAA\(vaa,\s*(ActionId\.[A-Za-z]+)\)`)
	m := re.FindStringSubmatch(src)
	if m == nil {
		return csrc.Unknown(), fmt.Errorf("action id of %s not found", fn)
	}
	v, ok := ral.Consts[m[1]]
	if !ok {
		return csrc.Unknown(), fmt.Errorf("%s not defined", m[1])
	}
	return v, nil
}

func main() {
	r = vlib.Start("C15", "exploration")
	rng := r.Rand("requests")
	corePath := vlib.Repo() + "/alephium/contracts/governance.ral"
	tbPath := vlib.Repo() + "/alephium/contracts/token_bridge/token_bridge_governance.ral"
	core, err1 := csrc.LoadRalph(corePath)
	tb, err2 := csrc.LoadRalph(tbPath)
	if err1 != nil || err2 != nil {
		r.Inconclusive(fmt.Sprintf("cannot load contract sources: %v %v", err1, err2))
		r.Finish("requests", "kinds", "", 1)
	}
	coreSrc := readFile(corePath)
	tbSrc := readFile(tbPath)
	kinds := map[string]*kindInfo{
		"GuardianSet":       {ral: core, fn: "submitNewGuardianSet", module: "CoreModule"},
		"UpdateMessageFee":  {ral: core, fn: "submitSetMessageFee", module: "CoreModule"},
		"TransferFee":       {ral: core, fn: "submitTransferFees", module: "CoreModule"},
		"ContractUpgrade":   {ral: core, fn: "submitContractUpgrade", module: "CoreModule"},
		"RegisterChain":     {ral: tb, fn: "parseAndVerifyRegisterChain", module: "TokenBridgeModule"},
		"BridgeUpgrade":     {ral: tb, fn: "upgradeContract", module: "TokenBridgeModule"},
		"DestroySequences":  {ral: tb, fn: "destroyUnexecutedSequenceContracts", module: "TokenBridgeModule"},
		"UpdateConsistency": {ral: tb, fn: "updateMinimalConsistencyLevel", module: "TokenBridgeModule"},
		"UpdateRefund":      {ral: tb, fn: "updateRefundAddress", module: "TokenBridgeModule"},
	}
	for name, k := range kinds {
		k.name = name
		src := coreSrc
		if k.ral == tb {
			src = tbSrc
		}
		a, err := actionOf(k.ral, src, k.fn)
		if err != nil || !k.ral.HasFunc(k.fn) {
			r.Inconclusive(fmt.Sprintf("contract parser for %s not extractable: %v", name, err))
			r.Finish("requests", "kinds", "", 1)
		}
		k.action = a
		if _, ok := k.ral.Consts[k.module]; !ok {
			r.Inconclusive("module constant " + k.module + " not found")
			r.Finish("requests", "kinds", "", 1)
		}
	}
	if !core.HasFunc("parseAndVerifyGovernanceVAAGeneric") {
		r.Inconclusive("parseAndVerifyGovernanceVAAGeneric not found")
		r.Finish("requests", "kinds", "", 1)
	}

	injA := make(chan *vaa.VAA, 16)
	injB := make(chan *vaa.VAA, 16)
	svcA := guardiand.VerifNewPrivilegedService(nil, injA, nil, nil, zap.NewNop(), proc.GovChain, proc.GovEmitter)
	svcB := guardiand.VerifNewPrivilegedService(nil, injB, nil, nil, zap.NewNop(), proc.GovChain, proc.GovEmitter)
	ctx := context.Background()
	n := r.Pick(20000, 400000)
	for i := 0; i < n; i++ {
		kn, msg, want := genRequest(rng)
		req := &nodev1.InjectGovernanceVAARequest{CurrentSetIndex: []uint32{0, 1, 7, 1 << 31, rng.Uint32()}[rng.Intn(5)], Timestamp: []uint32{0, 1, 1700000000, 0xffffffff}[rng.Intn(4)], Messages: []*nodev1.GovernanceMessage{msg}}
		if kn != "NoPayload" {
			want.setIndex = req.CurrentSetIndex
		}
		r.Count("requests", 1)
		r.Count("requests_"+kn, 1)
		call := func(svc nodev1.NodePrivilegedServiceServer, ch chan *vaa.VAA) (resp *nodev1.InjectGovernanceVAAResponse, v *vaa.VAA, err error, pv interface{}) {
			done := make(chan struct{})
			go func() {
				defer close(done)
				defer func() { pv = recover() }()
				resp, err = svc.InjectGovernanceVAA(ctx, req)
			}()
			select {
			case <-done:
			case <-time.After(20 * time.Second):
				pv = "InjectGovernanceVAA did not return within 20s"
			}
			select {
			case v = <-ch:
			default:
			}
			return
		}
		resp, v, err, pv := call(svcA, injA)
		w := map[string]interface{}{"kind": kn, "request": want.desc, "target_chain": msg.TargetChainId, "sequence": msg.Sequence}
		if pv != nil {
			w["panic"] = fmt.Sprint(pv)
			r.Violation("panic:"+kn+":"+want.class, w)
			continue
		}
		if err != nil {
			r.Count("rejected", 1)
			r.Distinct("kinds", kn+"/rejected/"+want.class)
			if v != nil {
				r.Violation("rejected-but-VAA-injected:"+kn, w)
			}
			if want.mustAccept {
				w["err"] = err.Error()
				r.Violation("valid-request-rejected:"+kn, w)
			}
			continue
		}
		if v == nil || resp == nil || len(resp.Digests) != 1 {
			r.Violation("accepted-without-VAA-or-digest:"+kn, w)
			continue
		}
		r.Count("accepted", 1)
		r.Distinct("kinds", kn+"/accepted/"+want.class)
		w["payload"] = vlib.Hex(v.Payload)
		// ---- envelope
		body := vlib.BuildBody(req.Timestamp, msg.Nonce, uint16(proc.GovChain), uint16(msg.TargetChainId), [32]byte(proc.GovEmitter), msg.Sequence, v.ConsistencyLevel, v.Payload)
		switch {
		case v.EmitterChain != proc.GovChain || v.EmitterAddress != proc.GovEmitter:
			r.Violation("VAA-not-from-configured-governance-emitter:"+kn, w)
		case uint32(v.TargetChain) != msg.TargetChainId:
			r.Violation("target-chain-truncated:"+kn, w)
		case v.Sequence != msg.Sequence || v.Nonce != msg.Nonce || uint32(v.Timestamp.Unix()) != req.Timestamp || v.GuardianSetIndex != req.CurrentSetIndex:
			r.Violation("envelope-field-differs-from-request:"+kn, w)
		case !bytes.Equal(resp.Digests[0], vlib.Digest(body)):
			r.Violation("returned-digest-is-not-the-VAA-digest:"+kn, w)
		}
		// ---- determinism: a second operator's node and a repetition
		resp2, v2, err2, pv2 := call(svcB, injB)
		resp3, _, err3, pv3 := call(svcA, injA)
		if pv2 != nil || pv3 != nil || err2 != nil || err3 != nil || v2 == nil || !bytes.Equal(resp2.Digests[0], resp.Digests[0]) || !bytes.Equal(resp3.Digests[0], resp.Digests[0]) {
			r.Violation("same-request-different-digest:"+kn, w)
		}
		// ---- contract-side parse
		k := kinds[kn]
		solJudge(k.name, v, want, w)
		judge(k, core, v, want, w)
		if i < 3 {
			r.Sample(w)
		}
	}
	if r.GetCount("accepted") == 0 || r.GetCount("rejected") == 0 || r.GetCount("contract_parses") == 0 {
		r.Inconclusive("acceptance, rejection or the contract-side parse was never exercised")
	}
	r.Assume("contract parsers are the harness' interpretation of the Ralph source text (module constant, action id, byteVecSlice!/u256FromNByte! offsets, size! assertions), not an Alephium VM execution",
		"policy assertions of the contracts that do not concern layout (target chain equals the local chain, sequence count > 0, asset-address check, new index = current + 1) are not judged")
	r.Finish("requests", "kinds", "requests of the nine governance kinds plus a message without payload; in-range boundary values and beyond-range values (chain ids 65535/65536/2^32-1, consistency 255/256, 0/1/65535/65536/70000 sequences, module names of 0/11/32/33/200 bytes, odd-length and non-hex strings, 63/65-char fixed fields, 0/1/19/20 guardians incl. duplicates and malformed keys, refund addresses up to 70000 bytes); distinct non-trivial = distinct (kind, verdict, value class)", 25)
}

type expect struct {
	desc       string
	class      string
	mustAccept bool
	setIndex   uint32
	ints       map[string]*big.Int // contract variable -> requested value
	tail       []byte              // expected payload[33:] for opaque upgrade payloads, nil if n/a
	keys       []byte              // guardian keys concatenated
	module     []byte              // expected 32-byte module (left-padded request module) when operator-chosen
	refund     []byte
	seqs       []uint64
}

// ---------------------------------------------------------------- the Ethereum contracts' parsers

type solKind struct{ file, fn string }

var solKinds = map[string]solKind{
	"GuardianSet":      {"/ethereum/contracts/GovernanceStructs.sol", "parseGuardianSetUpgrade"},
	"UpdateMessageFee": {"/ethereum/contracts/GovernanceStructs.sol", "parseSetMessageFee"},
	"TransferFee":      {"/ethereum/contracts/GovernanceStructs.sol", "parseTransferFees"},
	"ContractUpgrade":  {"/ethereum/contracts/GovernanceStructs.sol", "parseContractUpgrade"},
	"RegisterChain":    {"/ethereum/contracts/bridge/BridgeGovernance.sol", "parseRegisterChain"},
	"BridgeUpgrade":    {"/ethereum/contracts/bridge/BridgeGovernance.sol", "parseUpgrade"},
}
var solOff = map[string]bool{}
var solModule *big.Int

// solJudge runs the Ethereum-side parser of the same governance action (interpreted from the Solidity source) on the
// payload the node produced: it must not revert on a layout the node emits, and it must read the requested values.
// Upgrade payloads are only comparable when they have the shape the Ethereum contracts expect (one 32-byte word).
func solJudge(kind string, v *vaa.VAA, want expect, w map[string]interface{}) {
	sk, ok := solKinds[kind]
	if !ok || solOff[kind] {
		return
	}
	p := v.Payload
	if (kind == "ContractUpgrade" || kind == "BridgeUpgrade") && len(want.tail) != 32 {
		return
	}
	consts := map[string]*big.Int{}
	if strings.Contains(sk.file, "bridge/") {
		if solModule == nil {
			m := regexp.MustCompile(`bytes32\s+constant\s+module\s*=\s*(0x[0-9a-fA-F]{64})`).FindStringSubmatch(readFile(vlib.Repo() + sk.file))
			if m == nil {
				r.Inconclusive("module constant not found in " + sk.file)
				solOff[kind] = true
				return
			}
			solModule, _ = new(big.Int).SetString(m[1], 0)
		}
		if len(p) < 32 || new(big.Int).SetBytes(p[:32]).Cmp(solModule) != 0 {
			return // operator-chosen module names another contract
		}
		consts["module"] = solModule
	}
	res, err := csrc.SolRunParser(vlib.Repo()+sk.file, sk.fn, p, consts)
	if err != nil {
		r.Inconclusive("solidity interpreter: " + err.Error())
		solOff[kind] = true
		return
	}
	r.Count("ethereum_contract_parses", 1)
	r.Count("ethereum_contract_parses_"+kind, 1)
	if res.Reverted {
		w["ethereum_contract_revert"] = res.Reason
		r.Violation("ethereum-contract-rejects-payload-layout:"+kind+":"+want.class, w)
		return
	}
	cmp := func(field string, wantV *big.Int) {
		got, ok := res.Ints[field]
		if !ok {
			r.Inconclusive(fmt.Sprintf("solidity field %s of %s not evaluable", field, sk.fn))
			solOff[kind] = true
			return
		}
		r.Count("ethereum_values_compared", 1)
		if got.Cmp(wantV) != 0 {
			w["contract_variable"], w["contract_value"], w["requested_value"] = field, got.String(), wantV.String()
			r.Violation("ethereum-contract-reads-another-value:"+kind+":"+field+":"+want.class, w)
		}
	}
	switch kind {
	case "GuardianSet":
		cmp("guardianLength", want.ints["newGuardianSetSize"])
		if want.setIndex != 0xffffffff {
			cmp("newGuardianSetIndex", bi(uint64(want.setIndex)+1))
		}
		var keys []byte
		for _, k := range res.Lists["keys"] {
			keys = append(keys, k...)
		}
		if !bytes.Equal(keys, want.keys) {
			r.Violation("ethereum-contract-reads-other-guardian-keys:"+want.class, w)
		}
	case "UpdateMessageFee":
		if f, ok := want.ints["fee"]; ok {
			cmp("messageFee", f)
		}
	case "TransferFee":
		if a, ok := want.ints["amount"]; ok {
			cmp("amount", a)
		}
	case "RegisterChain":
		cmp("emitterChainID", want.ints["remoteChainId"])
	case "ContractUpgrade":
		cmp("newContract", new(big.Int).SetBytes(want.tail[12:]))
	case "BridgeUpgrade":
		cmp("newContract", new(big.Int).SetBytes(want.tail))
	}
}

func judge(k *kindInfo, core *csrc.Ralph, v *vaa.VAA, want expect, w map[string]interface{}) {
	p := v.Payload
	// module + action through the contract's generic checker
	mod := k.ral.Consts[k.module]
	if want.module != nil {
		// operator-chosen module string: must be the left-padded request value
		if len(p) < 32 || !bytes.Equal(p[:32], want.module) {
			r.Violation("module-bytes-differ-from-request:"+k.name, w)
			return
		}
		mod = csrc.BigInt(new(big.Int).SetBytes(want.module))
	}
	res, err := core.Run("parseAndVerifyGovernanceVAAGeneric", csrc.Env{
		"emitterChainId": csrc.Int(int64(v.EmitterChain)), "targetChainId": csrc.Int(int64(v.TargetChain)), "emitterAddress": csrc.Bytes(v.EmitterAddress[:]),
		"msgSequence": csrc.BigInt(new(big.Int).SetUint64(v.Sequence)), "payload": csrc.Bytes(p), "governanceChainId": csrc.Int(int64(proc.GovChain)),
		"governanceEmitterAddress": csrc.Bytes(proc.GovEmitter[:]), "targetSequence": csrc.Int(0), "coreModule": mod, "action": k.action})
	if err != nil {
		r.Inconclusive("interpreter: " + err.Error())
		return
	}
	if res.Aborted {
		w["contract_abort"] = res.AbortReason
		r.Violation("contract-rejects-module-or-action:"+k.name, w)
		return
	}
	res, err = k.ral.Run(k.fn, csrc.Env{"payload": csrc.Bytes(p), "targetChainId": csrc.Int(int64(v.TargetChain))})
	if err != nil {
		r.Inconclusive("interpreter: " + err.Error())
		return
	}
	r.Count("contract_parses", 1)
	if res.Aborted {
		w["contract_abort"] = res.AbortReason
		if strings.Contains(res.AbortReason, "size!(") || strings.Contains(res.AbortReason, "byteVecSlice!") || strings.Contains(res.AbortReason, "u256From") {
			r.Violation("contract-rejects-payload-layout:"+k.name+":"+want.class, w)
		} else {
			r.Count("contract_policy_rejections", 1)
		}
		return
	}
	if wantV, ok := want.ints["remoteChainIdAsInt"]; ok {
		delete(want.ints, "remoteChainIdAsInt")
		got := res.Env["remoteChainIdBytes"]
		if got.K != csrc.KBytes {
			r.Inconclusive("contract variable remoteChainIdBytes not evaluable")
		} else if new(big.Int).SetBytes(got.B).Cmp(wantV) != 0 {
			w["contract_variable"], w["contract_value"], w["requested_value"] = "remoteChainIdBytes", vlib.Hex(got.B), wantV.String()
			r.Violation("requested-value-not-represented:"+k.name+":remoteChainId:"+want.class, w)
		}
	}
	if k.name == "GuardianSet" && want.setIndex != 0xffffffff {
		want.ints["newGuardianSetIndex"] = bi(uint64(want.setIndex) + 1)
	}
	for name, wantV := range want.ints {
		got, ok := res.Env[name]
		if !ok || got.K != csrc.KInt {
			r.Inconclusive(fmt.Sprintf("contract variable %s of %s not evaluable", name, k.fn))
			continue
		}
		r.Count("values_compared", 1)
		if got.I.Cmp(wantV) != 0 {
			w["contract_variable"], w["contract_value"], w["requested_value"] = name, got.I.String(), wantV.String()
			r.Violation("requested-value-not-represented:"+k.name+":"+name+":"+want.class, w)
		}
	}
	if want.tail != nil && (len(p) < 33 || !bytes.Equal(p[33:], want.tail)) {
		r.Violation("upgrade-payload-differs-from-request:"+k.name, w)
	}
	if want.keys != nil && (len(p) < 38 || !bytes.Equal(p[38:], want.keys)) {
		r.Violation("guardian-keys-differ-from-request", w)
	}
	if want.refund != nil && (len(p) < 35 || !bytes.Equal(p[35:], want.refund)) {
		r.Violation("refund-address-differs-from-request:"+want.class, w)
	}
	if want.seqs != nil {
		var b bytes.Buffer
		for _, s := range want.seqs {
			_ = binary.Write(&b, binary.BigEndian, s)
		}
		if got := res.Env["paths"]; got.K != csrc.KBytes || !bytes.Equal(got.B, b.Bytes()) {
			r.Violation("sequence-list-differs-from-request:"+want.class, w)
		}
	}
}

func hexN(rng *rand.Rand, nbytes int) string {
	b := make([]byte, nbytes)
	rng.Read(b)
	return hex.EncodeToString(b)
}

func bi(u uint64) *big.Int { return new(big.Int).SetUint64(u) }

func genRequest(rng *rand.Rand) (string, *nodev1.GovernanceMessage, expect) {
	msg := &nodev1.GovernanceMessage{Sequence: []uint64{0, 1, 1 << 63, ^uint64(0), rng.Uint64()}[rng.Intn(5)], Nonce: rng.Uint32(),
		TargetChainId: []uint32{0, 1, 255, 65535, 65535, 65536, 1<<32 - 1, uint32(rng.Intn(70000))}[rng.Intn(8)]}
	tcOK := msg.TargetChainId <= 65535
	ex := expect{ints: map[string]*big.Int{}, class: "in-range", mustAccept: tcOK}
	if !tcOK {
		ex.class = "target-chain>65535"
	}
	bad := func(c string) {
		ex.class = c
		ex.mustAccept = false
	}
	kind := []string{"GuardianSet", "UpdateMessageFee", "TransferFee", "ContractUpgrade", "RegisterChain", "BridgeUpgrade", "DestroySequences", "UpdateConsistency", "UpdateRefund", "NoPayload"}[rng.Intn(10)]
	if rng.Intn(40) != 0 && kind == "NoPayload" {
		kind = "UpdateConsistency"
	}
	switch kind {
	case "NoPayload":
		ex.desc = "message without payload"
		bad("no-payload")
	case "GuardianSet":
		n := []int{0, 1, 2, 13, 19, 20, 25}[rng.Intn(7)]
		gs := &nodev1.GuardianSetUpgrade{}
		var keys []byte
		for i := 0; i < n; i++ {
			a := vlib.Addr(vlib.Key(i + 1))
			gs.Guardians = append(gs.Guardians, &nodev1.GuardianSetUpgrade_Guardian{Pubkey: a.Hex(), Name: fmt.Sprintf("g%d", i)})
			keys = append(keys, a.Bytes()...)
		}
		switch {
		case n == 0:
			bad("no-guardians")
		case n > 19:
			bad("too-many-guardians")
		}
		if n >= 2 && rng.Intn(6) == 0 {
			gs.Guardians[n-1].Pubkey = gs.Guardians[0].Pubkey
			bad("duplicate-guardian")
		} else if n >= 1 && rng.Intn(6) == 0 {
			gs.Guardians[rng.Intn(n)].Pubkey = []string{"0x1234", "zz", "", "0x" + strings.Repeat("g", 40)}[rng.Intn(4)]
			bad("malformed-guardian-key")
		}
		msg.Payload = &nodev1.GovernanceMessage_GuardianSet{GuardianSet: gs}
		ex.ints["newGuardianSetSize"] = bi(uint64(n))
		ex.keys = keys
		ex.desc = fmt.Sprintf("guardian set upgrade, %d guardians", n)
	case "UpdateMessageFee":
		s := hexN(rng, 32)
		switch rng.Intn(8) {
		case 0:
			s = s[:63]
			bad("63-chars")
		case 1:
			s += "0"
			bad("65-chars")
		case 2:
			s = "zz" + s[2:]
			bad("non-hex")
		case 3:
			s = strings.Repeat("f", 64)
		case 4:
			s = strings.Repeat("0", 64)
		}
		msg.Payload = &nodev1.GovernanceMessage_UpdateMessageFee{UpdateMessageFee: &nodev1.UpdateMessageFee{NewMessageFee: s}}
		if b, err := hex.DecodeString(s); err == nil {
			ex.ints["fee"] = new(big.Int).SetBytes(b)
		}
		ex.desc = "update message fee " + s
	case "TransferFee":
		a, rc := hexN(rng, 32), hexN(rng, 32)
		switch rng.Intn(8) {
		case 0:
			a = a[:62]
			bad("short-amount")
		case 1:
			rc = rc + "00"
			bad("long-recipient")
		case 2:
			rc = "xy" + rc[2:]
			bad("non-hex")
		}
		msg.Payload = &nodev1.GovernanceMessage_TransferFee{TransferFee: &nodev1.TransferFee{Amount: a, Recipient: rc}}
		if b, err := hex.DecodeString(a); err == nil {
			ex.ints["amount"] = new(big.Int).SetBytes(b)
		}
		ex.desc = "transfer fee"
	case "ContractUpgrade", "BridgeUpgrade":
		// contract code of random length, optionally with the state-migration tail
		code := make([]byte, rng.Intn(300))
		rng.Read(code)
		pl := append([]byte{byte(len(code) >> 8), byte(len(code))}, code...)
		if rng.Intn(2) == 0 {
			st := make([]byte, 32)
			rng.Read(st)
			f1 := make([]byte, rng.Intn(40))
			f2 := make([]byte, rng.Intn(40))
			pl = append(pl, st...)
			pl = append(pl, byte(len(f1)>>8), byte(len(f1)))
			pl = append(pl, f1...)
			pl = append(pl, byte(len(f2)>>8), byte(len(f2)))
			pl = append(pl, f2...)
		}
		if rng.Intn(5) == 0 { // the shape the Ethereum contracts expect: one 32-byte word (address of the new implementation)
			pl = make([]byte, 32)
			rng.Read(pl[12:])
			if rng.Intn(2) == 0 {
				rng.Read(pl)
			}
		}
		s := hex.EncodeToString(pl)
		switch rng.Intn(8) {
		case 0:
			s = s + "f"
			bad("odd-length-hex")
		case 1:
			s = "0x" + s
			bad("non-hex")
		}
		ex.tail = pl
		ex.desc = fmt.Sprintf("%s, %d payload bytes", kind, len(pl))
		if kind == "ContractUpgrade" {
			msg.Payload = &nodev1.GovernanceMessage_ContractUpgrade{ContractUpgrade: &nodev1.ContractUpgrade{Payload: s}}
		} else {
			mod := moduleName(rng, &ex, bad)
			msg.Payload = &nodev1.GovernanceMessage_BridgeContractUpgrade{BridgeContractUpgrade: &nodev1.BridgeUpgradeContract{Module: mod, Payload: s}}
			ex.desc += fmt.Sprintf(", module %q (%d bytes)", trunc(mod, 40), len(mod))
		}
	case "RegisterChain":
		cid := []uint32{0, 1, 255, 256, 65535, 65536, 1<<32 - 1, uint32(rng.Intn(65536))}[rng.Intn(8)]
		em := hexN(rng, 32)
		if cid > 65535 {
			bad("chain-id>65535")
		}
		switch rng.Intn(8) {
		case 0:
			em = em[:62]
			bad("31-byte-emitter")
		case 1:
			em += "ab"
			bad("33-byte-emitter")
		case 2:
			em = em[:63]
			bad("odd-length-hex")
		}
		mod := moduleName(rng, &ex, bad)
		msg.Payload = &nodev1.GovernanceMessage_BridgeRegisterChain{BridgeRegisterChain: &nodev1.BridgeRegisterChain{Module: mod, ChainId: cid, EmitterAddress: em}}
		ex.ints["remoteChainId"] = bi(uint64(cid))
		ex.desc = fmt.Sprintf("register chain %d, module %q (%d bytes)", cid, trunc(mod, 40), len(mod))
	case "DestroySequences":
		ec := []uint32{0, 1, 255, 65535, 65536, 65538, 1<<32 - 1, uint32(rng.Intn(65536))}[rng.Intn(8)]
		n := []int{0, 1, 2, 100, 65535, 65536, 70000}[rng.Intn(7)]
		if n > 1000 && rng.Intn(4) != 0 {
			n = 1 + rng.Intn(20)
		}
		seqs := make([]uint64, n)
		for i := range seqs {
			seqs[i] = []uint64{0, 1, ^uint64(0), rng.Uint64()}[rng.Intn(4)]
		}
		msg.Payload = &nodev1.GovernanceMessage_DestroyUnexecutedSequenceContracts{DestroyUnexecutedSequenceContracts: &nodev1.TokenBridgeDestroyUnexecutedSequenceContracts{EmitterChain: ec, Sequences: seqs}}
		ex.ints["length"] = bi(uint64(n))
		ex.ints["remoteChainIdAsInt"] = bi(uint64(ec))
		ex.seqs = seqs
		if ec > 65535 {
			ex.class = "emitter-chain>65535"
			ex.mustAccept = false
		}
		if n > 65535 {
			ex.class = "sequence-count>65535"
			ex.mustAccept = false
		}
		ex.desc = fmt.Sprintf("destroy unexecuted sequences: emitter chain %d, %d sequences", ec, n)
	case "UpdateConsistency":
		cl := []uint32{0, 1, 127, 255, 256, 257, 65535, 1<<32 - 1, uint32(rng.Intn(256))}[rng.Intn(9)]
		msg.Payload = &nodev1.GovernanceMessage_UpdateMinimalConsistencyLevel{UpdateMinimalConsistencyLevel: &nodev1.TokenBridgeUpdateMinimalConsistencyLevel{NewConsistencyLevel: cl}}
		ex.ints["consistencyLevel"] = bi(uint64(cl))
		if cl > 255 {
			ex.class = "consistency-level>255"
			ex.mustAccept = false
		}
		ex.desc = fmt.Sprintf("update minimal consistency level to %d", cl)
	case "UpdateRefund":
		n := []int{0, 1, 33, 65, 65535, 65536, 70000}[rng.Intn(7)]
		if n > 1000 && rng.Intn(4) != 0 {
			n = 33
		}
		a := make([]byte, n)
		rng.Read(a)
		s := hex.EncodeToString(a)
		if rng.Intn(10) == 0 {
			s += "1"
			bad("odd-length-hex")
		}
		msg.Payload = &nodev1.GovernanceMessage_UpdateRefundAddress{UpdateRefundAddress: &nodev1.TokenBridgeUpdateRefundAddress{NewRefundAddress: s}}
		ex.ints["addressSize"] = bi(uint64(n))
		ex.refund = a
		if n > 65535 {
			ex.class = "refund-address>65535-bytes"
			ex.mustAccept = false
		}
		ex.desc = fmt.Sprintf("update refund address, %d bytes", n)
	}
	if !tcOK {
		ex.mustAccept = false
		if ex.class == "in-range" {
			ex.class = "target-chain>65535"
		}
	}
	return kind, msg, ex
}

func moduleName(rng *rand.Rand, ex *expect, bad func(string)) string {
	// byte length, not character count, is what the 32-byte module field holds: include multi-byte names
	mod := []string{"TokenBridge", "TokenBridge", "TokenBridge", "", "NFTBridge", strings.Repeat("m", 32), strings.Repeat("m", 33), strings.Repeat("x", 200),
		strings.Repeat("é", 16), strings.Repeat("é", 17), strings.Repeat("桥", 11), "Token" + strings.Repeat("é", 14), string([]byte{0xff, 0xfe, 0x00, 0x01})}[rng.Intn(13)]
	if len(mod) > 32 {
		bad("module>32-bytes")
		return mod
	}
	ex.module = append(make([]byte, 32-len(mod)), []byte(mod)...)
	return mod
}

func trunc(s string, n int) string {
	if len(s) > n {
		return s[:n] + "..."
	}
	return s
}

func readFile(p string) string {
	b, _ := osReadFile(p)
	return string(b)
}

var _ = ethcommon.Address{}
