// C05 - VAA wire encoding round-trips exactly and the decoder is total.
// Three monitors over the real vaa.Unmarshal / Marshal: generated values, structured mutations
// of valid encodings (checked against an independent reference decoder), and Go's native
// coverage-guided fuzzer with the oracle inside the fuzz target.
package main

import (
	"bytes"
	"fmt"
	"math/rand"
	"os"
	"os/exec"
	"path/filepath"
	"regexp"
	"strconv"
	"strings"
	"time"

	"github.com/alephium/wormhole-fork/node/pkg/vaa"
	"verif/harness/node/internal/vlib"
)

var r *vlib.Run

// try runs Unmarshal under recover and applies the reference-decoder oracle.
func try(data []byte, origin string) {
	r.Count("decodes", 1)
	in := append([]byte{}, data...)
	var v *vaa.VAA
	var err error
	func() {
		defer func() {
			if p := recover(); p != nil {
				r.Violation("unmarshal:panic:"+origin, map[string]interface{}{"input": vlib.Hex(in), "len": len(in), "panic": fmt.Sprint(p)})
				err = fmt.Errorf("panic")
			}
		}()
		v, err = vaa.Unmarshal(data)
	}()
	// independent acceptance predicate
	wantOK := false
	var w *vlib.WireVAA
	emptyPayload := false
	if len(in) >= 6 && in[0] == 1 && len(in) >= 6+66*int(in[5])+53 && len(in) >= 57 {
		var e error
		w, e = vlib.ParseWire(in)
		wantOK = e == nil
		// A complete body with a zero-length payload is what Marshal writes for a message
		// without payload: the property leaves open whether the decoder takes it; if it does
		// it must decode and re-encode exactly like any other accepted input.
		emptyPayload = len(in) == 6+66*int(in[5])+53
	}
	if err != nil {
		r.Count("rejected", 1)
		if v != nil {
			r.Violation("unmarshal:partial-vaa-with-error", map[string]interface{}{"input": vlib.Hex(in), "origin": origin})
		}
		if wantOK && !emptyPayload {
			r.Violation("unmarshal:rejects-valid-encoding:"+origin, map[string]interface{}{"input": vlib.Hex(in), "len": len(in), "err": err.Error()})
		}
		return
	}
	r.Count("accepted", 1)
	if v == nil {
		r.Violation("unmarshal:nil-without-error", map[string]interface{}{"input": vlib.Hex(in)})
		return
	}
	if !wantOK {
		r.Violation("unmarshal:accepts-malformed:"+origin, map[string]interface{}{"input": vlib.Hex(in), "len": len(in)})
		return
	}
	bad := ""
	switch {
	case v.Version != w.Version, v.GuardianSetIndex != w.SetIndex:
		bad = "header"
	case len(v.Signatures) != len(w.Sigs):
		bad = "sigcount"
	case uint32(v.Timestamp.Unix()) != w.Timestamp || v.Timestamp.Nanosecond() != 0:
		bad = "timestamp"
	case v.Nonce != w.Nonce, uint16(v.EmitterChain) != w.EChain, uint16(v.TargetChain) != w.TChain, [32]byte(v.EmitterAddress) != w.Emitter, v.Sequence != w.Sequence, v.ConsistencyLevel != w.CLevel:
		bad = "bodyfield"
	case !bytes.Equal(v.Payload, w.Payload):
		if len(w.Payload) > 1000 && len(v.Payload) == 1000 {
			bad = "payload-truncated>1000"
		} else {
			bad = "payload"
		}
	}
	for i := 0; bad == "" && i < len(w.Sigs); i++ {
		if v.Signatures[i].Index != w.SigIdx[i] || !bytes.Equal(v.Signatures[i].Signature[:], w.Sigs[i]) {
			bad = "signature"
		}
	}
	if bad != "" {
		r.Violation("unmarshal:"+bad, map[string]interface{}{"input": vlib.Hex(in), "len": len(in), "payload_len": len(w.Payload), "decoded_payload_len": len(v.Payload), "origin": origin})
		return
	}
	out, _ := v.Marshal()
	if !bytes.Equal(out, in) {
		r.Violation("marshal:accepted-input-reencodes-differently", map[string]interface{}{"input": vlib.Hex(in), "output": vlib.Hex(out)})
	}
	if d := v.SigningMsg(); !bytes.Equal(d.Bytes(), vlib.Digest(w.Body)) {
		r.Violation("digest-differs-after-decode", map[string]interface{}{"input": vlib.Hex(in)})
	}
	r.Distinct("accepted_shapes", fmt.Sprintf("%d/%d", len(w.Sigs), len(w.Payload)))
}

func genVAA(rng *rand.Rand) *vaa.VAA {
	plens := []int{1, 2, 31, 32, 999, 1000, 1001, 1024, 2975, 4096, 65535, 70000}
	nsigs := []int{0, 1, 13, 19, 255}
	pl := plens[rng.Intn(len(plens))]
	if rng.Intn(2) == 0 {
		pl = 1 + rng.Intn(2500)
	}
	v := &vaa.VAA{Version: 1, GuardianSetIndex: rng.Uint32(), Timestamp: time.Unix(int64([]uint32{0, 1, 0x7fffffff, 0x80000000, 0xffffffff, rng.Uint32()}[rng.Intn(6)]), 0),
		Nonce: rng.Uint32(), Sequence: rng.Uint64(), ConsistencyLevel: uint8(rng.Intn(256)), EmitterChain: vaa.ChainID(rng.Intn(65536)), TargetChain: vaa.ChainID(rng.Intn(65536)),
		Payload: make([]byte, pl)}
	rng.Read(v.Payload)
	rng.Read(v.EmitterAddress[:])
	ns := nsigs[rng.Intn(len(nsigs))]
	if rng.Intn(3) == 0 {
		ns = rng.Intn(256)
	}
	for i := 0; i < ns; i++ {
		s := &vaa.Signature{Index: uint8(rng.Intn(256))}
		rng.Read(s.Signature[:])
		v.Signatures = append(v.Signatures, s)
	}
	if v.Signatures == nil {
		v.Signatures = []*vaa.Signature{}
	}
	return v
}

func main() {
	r = vlib.Start("C05", "exploration")
	rng := r.Rand("gen")

	// 1. generated values: Unmarshal(Marshal(v)) == v
	n1 := r.Pick(4000, 80000)
	for i := 0; i < n1; i++ {
		v := genVAA(rng)
		b, err := v.Marshal()
		if err != nil {
			r.Violation("marshal:error", nil)
			continue
		}
		r.Count("roundtrips", 1)
		var got *vaa.VAA
		func() {
			defer func() {
				if p := recover(); p != nil {
					r.Violation("unmarshal:panic:roundtrip", map[string]interface{}{"input": vlib.Hex(b), "panic": fmt.Sprint(p)})
				}
			}()
			got, err = vaa.Unmarshal(b)
		}()
		if err != nil || got == nil {
			r.Violation(fmt.Sprintf("roundtrip:rejected:%s", lenClass(len(v.Payload))), map[string]interface{}{"payload_len": len(v.Payload), "sigs": len(v.Signatures), "err": fmt.Sprint(err)})
			continue
		}
		same := got.Version == v.Version && got.GuardianSetIndex == v.GuardianSetIndex && got.Timestamp.Unix() == v.Timestamp.Unix() && got.Nonce == v.Nonce &&
			got.Sequence == v.Sequence && got.ConsistencyLevel == v.ConsistencyLevel && got.EmitterChain == v.EmitterChain && got.TargetChain == v.TargetChain &&
			got.EmitterAddress == v.EmitterAddress && bytes.Equal(got.Payload, v.Payload) && len(got.Signatures) == len(v.Signatures)
		for j := 0; same && j < len(v.Signatures); j++ {
			same = *got.Signatures[j] == *v.Signatures[j]
		}
		if !same {
			cls := "roundtrip:value-changed"
			if len(v.Payload) > 1000 && len(got.Payload) == 1000 {
				cls = "roundtrip:payload-truncated>1000"
			}
			r.Violation(cls, map[string]interface{}{"payload_len": len(v.Payload), "decoded_payload_len": len(got.Payload), "sigs": len(v.Signatures), "input": vlib.Hex(b)})
			continue
		}
		if got.SigningMsg() != v.SigningMsg() {
			r.Violation("roundtrip:digest-changed", map[string]interface{}{"input": vlib.Hex(b)})
		}
		r.Distinct("roundtrip_shapes", fmt.Sprintf("%d/%d", len(v.Signatures), len(v.Payload)))
		if i < 2 {
			r.Sample(map[string]interface{}{"kind": "roundtrip", "sigs": len(v.Signatures), "payload_len": len(v.Payload), "wire_len": len(b)})
		}
		// 2. structured mutations of this valid encoding
		if i%4 == 0 {
			hdr := 6 + 66*len(v.Signatures)
			cuts := []int{0, 1, 5, 6, hdr - 1, hdr, hdr + 1, hdr + 4, hdr + 8, hdr + 10, hdr + 12, hdr + 44, hdr + 52, hdr + 53, hdr + 54, len(b) - 1, 56, 57, 58, 59, 60}
			for _, c := range cuts {
				if c >= 0 && c <= len(b) {
					try(b[:c], "truncate")
				}
			}
			for _, sc := range []int{0, 1, len(v.Signatures) - 1, len(v.Signatures) + 1, 127, 128, 255, rng.Intn(256)} {
				if sc >= 0 {
					m := append([]byte{}, b...)
					m[5] = byte(sc)
					try(m, "sigcount")
				}
			}
			for _, ver := range []byte{0, 2, 255} {
				m := append([]byte{}, b...)
				m[0] = ver
				try(m, "version")
			}
			try(append(append([]byte{}, b...), make([]byte, 1+rng.Intn(2000))...), "trailing")
			m := append([]byte{}, b...)
			m[rng.Intn(len(m))] ^= byte(1 << uint(rng.Intn(8)))
			try(m, "bitflip")
			junk := make([]byte, rng.Intn(200))
			rng.Read(junk)
			try(junk, "random")
		}
	}
	// every length 0..130 of constant bytes with version 1
	for l := 0; l <= 130; l++ {
		for _, fill := range []byte{0, 1, 0xff} {
			b := bytes.Repeat([]byte{fill}, l)
			if l > 0 {
				b[0] = 1
			}
			try(b, "short")
		}
	}

	// 3. coverage-guided fuzzing with the oracle in the target
	runFuzz(r.Pick(20, 600), r.Pick(8, 16))

	r.Count("evaluations", r.GetCount("decodes")+r.GetCount("roundtrips")+r.GetCount("fuzz_execs"))
	for k := range map[string]bool{} {
		_ = k
	}
	r.Assume("timestamps compared as whole Unix seconds (32-bit range)", "the fuzz oracle is the byte-exact re-encoding check; the structured monitors additionally use an independent reference decoder")
	if r.GetCount("fuzz_execs") == 0 {
		r.Inconclusive("fuzzer did not execute")
	}
	r.Finish("evaluations", "accepted_shapes", "generated VAAs (payload 1..70000, 0..255 signatures), structured mutations of their encodings (truncation at every field boundary, signature count byte, version, trailing bytes, bit flips, random bytes, all lengths 0..130) and coverage-guided fuzzing; distinct non-trivial = distinct (signature count, payload length) shapes accepted and checked against the reference decoder", 50)
}

func lenClass(n int) string {
	switch {
	case n == 0:
		return "payload=0"
	case n <= 1000:
		return "payload<=1000"
	}
	return "payload>1000"
}

func runFuzz(seconds, workers int) {
	scratch, err := os.MkdirTemp("", "verif-c05-fuzz-")
	if err != nil {
		r.Inconclusive("mktemp: " + err.Error())
		return
	}
	defer os.RemoveAll(scratch)
	pkgDir := vlib.Home() + "/harness/node/fuzz/c05"
	crashDir := filepath.Join(pkgDir, "testdata", "fuzz", "FuzzUnmarshal")
	_ = os.RemoveAll(filepath.Join(pkgDir, "testdata"))
	args := []string{"test"}
	if mf := os.Getenv("VERIF_MODFILE"); mf != "" {
		args = append(args, "-modfile="+mf) // background run on a snapshot of the repository
	}
	args = append(args, "-tags", "verif", "-vet=off", "-run", "^$", "-fuzz", "^FuzzUnmarshal$", "-fuzztime", fmt.Sprintf("%ds", seconds),
		"-parallel", strconv.Itoa(workers), "-test.fuzzcachedir", filepath.Join(scratch, "corpus"), ".")
	cmd := exec.Command("go", args...)
	cmd.Dir = pkgDir
	cmd.Env = append(os.Environ(), "GOFLAGS=-mod=mod", "GOPROXY=off", "GOSUMDB=off", "GOTOOLCHAIN=local")
	out, err := cmd.CombinedOutput()
	s := string(out)
	execs := int64(0)
	for _, m := range regexp.MustCompile(`execs: (\d+)`).FindAllStringSubmatch(s, -1) {
		if n, _ := strconv.ParseInt(m[1], 10, 64); n > execs {
			execs = n
		}
	}
	interesting := int64(0)
	for _, m := range regexp.MustCompile(`new interesting: (\d+) \(total: (\d+)\)`).FindAllStringSubmatch(s, -1) {
		if n, _ := strconv.ParseInt(m[2], 10, 64); n > interesting {
			interesting = n
		}
	}
	r.Count("fuzz_execs", execs)
	r.Extra("fuzz_corpus_entries", interesting)
	r.Extra("fuzz_seconds", seconds)
	if err != nil {
		// a failing input: copy crashers to the replay dir, classify by the oracle message
		cls := "fuzz:failure"
		if m := regexp.MustCompile(`C05:[a-z0-9>\-]+( payload>1000)?`).FindString(s); m != "" {
			cls = "fuzz:" + strings.TrimPrefix(m, "C05:")
		} else if strings.Contains(s, "panic:") || strings.Contains(s, "fatal error:") {
			cls = "fuzz:panic"
		} else if !strings.Contains(s, "FAIL") {
			r.Inconclusive("go test -fuzz could not run: " + tail(s, 400))
			return
		}
		var crashers []string
		if es, e := os.ReadDir(crashDir); e == nil {
			for _, e := range es {
				b, _ := os.ReadFile(filepath.Join(crashDir, e.Name()))
				dst := filepath.Join(vlib.Home(), "replays", "C05-fuzz-"+e.Name())
				_ = os.WriteFile(dst, b, 0o644)
				crashers = append(crashers, dst)
			}
		}
		_ = os.RemoveAll(filepath.Join(pkgDir, "testdata"))
		r.Violation(cls, map[string]interface{}{"crashers": crashers, "output_tail": tail(s, 1500)})
	}
}

func tail(s string, n int) string {
	if len(s) > n {
		return s[len(s)-n:]
	}
	return s
}
