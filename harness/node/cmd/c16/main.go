// C16 - acknowledged VAA writes survive a crash (SIGKILL) of the node.
// parent: spawns writer children over the same store directory, kills them with SIGKILL at
// PRNG-chosen points, then has a fresh verifier process reopen the store and look up every id.
package main

import (
	"bufio"
	"bytes"
	"crypto/sha256"
	"encoding/hex"
	"flag"
	"fmt"
	"io"
	"math/rand"
	"os"
	"os/exec"
	"path/filepath"
	"strconv"
	"strings"
	"sync"
	"syscall"
	"time"

	"github.com/alephium/wormhole-fork/node/pkg/db"
	"github.com/alephium/wormhole-fork/node/pkg/vaa"
	"verif/harness/node/internal/vlib"
)

var (
	mode  = flag.String("mode", "parent", "parent|child|verify")
	dir   = flag.String("dir", "", "store directory")
	cycle = flag.Int("cycle", 0, "cycle number (child)")
	cseed = flag.Int64("cseed", 0, "content seed (child/verify)")
	idsF  = flag.String("ids", "", "file with ids to look up (verify)")
)

// content of version ver of id (cycle, seq): deterministic in (cseed, cycle, seq, ver)
func mkVAA(cseed int64, c, seq, ver int) *vaa.VAA {
	rng := rand.New(rand.NewSource(cseed*1000003 + int64(c)*7919 + int64(seq)*31 + int64(ver)))
	size := 100 + rng.Intn(4000)
	switch rng.Intn(12) {
	case 0:
		size = 64*1024 + rng.Intn(192*1024)
	case 1:
		size = 8*1024 + rng.Intn(32*1024)
	}
	v := &vaa.VAA{Version: 1, GuardianSetIndex: uint32(ver), Timestamp: time.Unix(1700000000+int64(seq), 0), Nonce: rng.Uint32(), Sequence: uint64(c)*1000000 + uint64(seq),
		ConsistencyLevel: 1, EmitterChain: 2, TargetChain: 3, EmitterAddress: vaa.Address{31: 0x16}, Payload: make([]byte, size)}
	rng.Read(v.Payload)
	for k := 0; k < 1+rng.Intn(13); k++ {
		s := &vaa.Signature{Index: uint8(k)}
		rng.Read(s.Signature[:])
		v.Signatures = append(v.Signatures, s)
	}
	return v
}

func shaOf(v *vaa.VAA) string {
	b, _ := v.Marshal()
	h := sha256.Sum256(b)
	return hex.EncodeToString(h[:])
}

func out(s string) { _, _ = os.Stdout.Write([]byte(s)) } // one write(2) per line

func child() {
	d, err := db.Open(*dir)
	if err != nil {
		out("OPENERR " + strings.ReplaceAll(err.Error(), "\n", " ") + "\n")
		os.Exit(4)
	}
	out(fmt.Sprintf("OPEN %d\n", *cycle))
	rng := rand.New(rand.NewSource(*cseed + int64(*cycle)))
	vers := map[int]int{}
	next := 0
	for {
		seq := next
		if next > 3 && rng.Intn(5) == 0 {
			seq = rng.Intn(next) // overwrite an id of this cycle with a new version
		} else {
			next++
		}
		ver := vers[seq]
		vers[seq] = ver + 1
		v := mkVAA(*cseed, *cycle, seq, ver)
		out(fmt.Sprintf("BEGIN %d %d %d\n", *cycle, seq, ver))
		if err := d.StoreSignedVAA(v); err != nil {
			out(fmt.Sprintf("STOREERR %d %d %d\n", *cycle, seq, ver))
			continue
		}
		out(fmt.Sprintf("ACK %d %d %d %s\n", *cycle, seq, ver, shaOf(v)))
	}
}

func verify() {
	d, err := db.Open(*dir)
	if err != nil {
		out("OPENERR " + strings.ReplaceAll(err.Error(), "\n", " ") + "\n")
		os.Exit(4)
	}
	out("VERIFY-OPEN-OK\n")
	f, err := os.Open(*idsF)
	if err != nil {
		os.Exit(5)
	}
	sc := bufio.NewScanner(f)
	for sc.Scan() {
		var c, seq int
		if _, err := fmt.Sscanf(sc.Text(), "%d %d", &c, &seq); err != nil {
			continue
		}
		b, err := d.GetSignedVAABytes(vaa.VAAID{EmitterChain: 2, EmitterAddress: vaa.Address{31: 0x16}, TargetChain: 3, Sequence: uint64(c)*1000000 + uint64(seq)})
		switch {
		case err == db.ErrVAANotFound:
			out(fmt.Sprintf("GOT %d %d NOTFOUND\n", c, seq))
		case err != nil:
			out(fmt.Sprintf("GOT %d %d ERR %s\n", c, seq, strings.ReplaceAll(err.Error(), "\n", " ")))
		default:
			h := sha256.Sum256(b)
			out(fmt.Sprintf("GOT %d %d %s\n", c, seq, hex.EncodeToString(h[:])))
		}
	}
	_ = d.Close()
	out("VERIFY-DONE\n")
}

// straceOK: strace can start a tracee and kill it at a syscall entry in this sandbox (probed once).
var straceOK bool

var killSyscalls = []string{"openat", "openat", "ftruncate", "ftruncate", "pwrite64", "write", "fsync", "fdatasync", "rename", "renameat", "unlinkat", "unlink", "fallocate", "msync", "close", "mmap", "munmap", "pread64", "fstat", "newfstatat", "getdents64", "flock", "lseek"}

// coreSyscalls are the calls badger's file handling is made of; the first four occurrences of each (per thread)
// are visited systematically, the rest at random.
var coreSyscalls = []string{"ftruncate", "openat", "mmap", "pwrite64", "fsync", "rename", "unlinkat", "close", "write", "munmap"}

// sweepSyscalls: the calls that create, size, write, sync, rename or remove files. strace counts injected calls per
// thread, so a joint counter would only ever reach the first few calls of the busiest thread; one call name at a time
// with N = 1..3 reaches the rare, interesting ones (the first ftruncate of a new memtable or value log, the first
// rename of a manifest, ...) wherever they run.
var sweepSyscalls = []string{"ftruncate", "renameat", "rename", "fsync", "fdatasync", "msync", "fallocate", "unlinkat", "unlink", "pwrite64", "flock", "openat", "write"}

func sweepPoint(i int) (string, int) {
	i %= len(sweepSyscalls) * 3
	return sweepSyscalls[i%len(sweepSyscalls)], 1 + i/len(sweepSyscalls)
}

var nDirsG = 4

// freshSweep: the first start on an empty directory, killed on entry to the N-th file-system call of a thread
// (this directory's share of the sweep points); whatever half-created files remain, the next start must open the store.
func freshSweep(r *vlib.Run, self string, di, nDirs int, cseed int64) {
	for pi := di; pi < len(sweepSyscalls)*3; pi += nDirs {
		scName, n := sweepPoint(pi)
		base, err := os.MkdirTemp("", "verif-c16-fresh-")
		if err != nil {
			return
		}
		store := filepath.Join(base, "store")
		_ = os.MkdirAll(store, 0o755)
		cmd := straceCmd(scName, n, self, "-mode", "child", "-dir", store, "-cycle", "0", "-cseed", strconv.FormatInt(cseed, 10))
		cmd.SysProcAttr = &syscall.SysProcAttr{Setpgid: true}
		var so bytes.Buffer
		cmd.Stdout, cmd.Stderr = &so, io.Discard
		if cmd.Start() == nil {
			done := make(chan struct{})
			go func() { _ = cmd.Wait(); close(done) }()
			select {
			case <-done:
			case <-time.After(400 * time.Millisecond):
			}
			_ = syscall.Kill(-cmd.Process.Pid, syscall.SIGKILL)
			<-done
		}
		opened := strings.Contains(so.String(), "OPEN ")
		r.Count("kills", 1)
		r.Count("kills_at_syscall_entry", 1)
		r.Count("fresh_store_sweep_points", 1)
		if !opened {
			r.Count("kill_phase_during-first-open", 1)
		}
		r.Distinct("syscall_kill_points", fmt.Sprintf("fresh-store/%s#%d/opened=%v", scName, n, opened))
		var es []string
		if l, err := os.ReadDir(store); err == nil {
			for _, e := range l {
				if fi, _ := e.Info(); fi != nil {
					es = append(es, fmt.Sprintf("%s:%d", e.Name(), fi.Size()))
				}
			}
		}
		idsFile := filepath.Join(base, "ids.txt")
		_ = os.WriteFile(idsFile, nil, 0o644)
		vc := exec.Command(self, "-mode", "verify", "-dir", store, "-cseed", strconv.FormatInt(cseed, 10), "-ids", idsFile)
		var vout, verr bytes.Buffer
		vc.Stdout, vc.Stderr = &vout, &verr
		verrRun := make(chan error, 1)
		if vc.Start() != nil {
			_ = os.RemoveAll(base)
			continue
		}
		go func() { verrRun <- vc.Wait() }()
		select {
		case err = <-verrRun:
			if err != nil || !strings.Contains(vout.String(), "VERIFY-OPEN-OK") {
				r.Violation("store-does-not-reopen-after-kill", map[string]interface{}{"kill_phase": "first start on an empty directory", "trigger": fmt.Sprintf("SIGKILL on entry to %s call #%d of a thread", scName, n),
					"files_left_by_the_kill": es, "stdout": tail(vout.String(), 300), "stderr": tail(verr.String(), 1200)})
			}
		case <-time.After(120 * time.Second):
			_ = vc.Process.Kill()
			r.InconclusiveCase("fresh-sweep verifier watchdog fired")
		}
		_ = os.RemoveAll(base)
	}
}

func pickSyscall(rng *rand.Rand) (string, int) {
	name := killSyscalls[rng.Intn(len(killSyscalls))]
	n := 1 + rng.Intn(6)
	switch rng.Intn(4) {
	case 0:
		n = 1 + rng.Intn(2)
	case 1:
		n = 1 + rng.Intn(40)
	}
	return name, n
}

func straceCmd(name string, n int, argv ...string) *exec.Cmd {
	args := append([]string{"-f", "-qq", "-o", "/dev/null", "-e", "trace=" + name, "-e", fmt.Sprintf("inject=%s:signal=SIGKILL:when=%d", name, n)}, argv...)
	return exec.Command("strace", args...)
}

func probeStrace() bool {
	c := exec.Command("strace", "-f", "-qq", "-o", "/dev/null", "-e", "trace=getpid", "-e", "inject=getpid:signal=SIGKILL:when=1", "/bin/sh", "-c", "echo $$; sleep 5")
	done := make(chan error, 1)
	if c.Start() != nil {
		return false
	}
	go func() { done <- c.Wait() }()
	select {
	case <-done:
	case <-time.After(3 * time.Second): // sh never calls getpid: no kill, but strace runs - good enough
		_ = c.Process.Kill()
		<-done
	}
	for _, sc := range killSyscalls { // every name must be known to this strace
		if out, err := exec.Command("strace", "-qq", "-o", "/dev/null", "-e", "trace="+sc, "/bin/true").CombinedOutput(); err != nil {
			_ = out
			return false
		}
	}
	return true
}

// lockedBuffer collects a child's output and can be read while the child still writes.
type lockedBuffer struct {
	mu sync.Mutex
	b  bytes.Buffer
}

func (l *lockedBuffer) Write(p []byte) (int, error) { l.mu.Lock(); defer l.mu.Unlock(); return l.b.Write(p) }
func (l *lockedBuffer) String() string                { l.mu.Lock(); defer l.mu.Unlock(); return l.b.String() }

type idKey struct{ c, seq int }
type idState struct {
	begun   map[int]bool // versions with BEGIN
	lastAck int          // highest acked version, -1 if none
	ackSha  map[int]string
}

func main() {
	flag.Parse()
	switch *mode {
	case "child":
		child()
		return
	case "verify":
		verify()
		return
	}
	r := vlib.Start("C16", "fault_enumeration")
	self, _ := os.Executable()
	straceOK = probeStrace()
	r.Extra("strace_syscall_kill_injection_available", straceOK)
	nDirs := r.Pick(4, 8)
	nDirsG = nDirs
	cycles := r.Pick(40, 150)
	var wg sync.WaitGroup
	for di := 0; di < nDirs; di++ {
		wg.Add(1)
		go func(di int) {
			defer wg.Done()
			runDir(r, self, di, cycles)
		}(di)
	}
	wg.Wait()
	r.Count("evaluations", r.GetCount("kills"))
	r.Assume("crash = SIGKILL of the process (page cache survives); power loss is out of scope as the property states",
		"badger opened with the options db.Open uses")
	if r.GetCount("acked_checked") == 0 {
		r.Inconclusive("no acknowledged write was ever checked")
	}
	r.Finish("evaluations", "kill_points", "writer children store unique (cycle,seq,version) VAAs (100 B..256 KiB, overwrites of earlier ids) and acknowledge each on a pipe; SIGKILL at PRNG-chosen points (after k-th ACK + delay, right after a BEGIN, during open, during the verifier's reopen, and - through strace's syscall injection - on entry to the N-th openat/ftruncate/pwrite64/write/fsync/rename/unlink/mmap/... call of a thread, in writers and in recovering verifiers); a fresh verifier process reopens the directory after every kill and looks up every id of all cycles; distinct non-trivial = distinct (phase, acks-before-kill) kill points", 10)
}

func runDir(r *vlib.Run, self string, di, cycles int) {
	rng := r.Rand(fmt.Sprintf("dir%d", di))
	cseed := r.Seed*100 + int64(di)
	base, err := os.MkdirTemp("", "verif-c16-")
	if err != nil {
		r.Inconclusive("mktemp: " + err.Error())
		return
	}
	defer os.RemoveAll(base)
	store := filepath.Join(base, "store")
	_ = os.MkdirAll(store, 0o755)
	ids := map[idKey]*idState{}
	var order []idKey
	flushSeen := 0
	atSys := 0
	if straceOK {
		freshSweep(r, self, di, nDirsG, cseed)
	}
	sweepIdx := 0
	for c := 0; c < cycles; c++ {
		// ---- choose the kill trigger
		trig := []string{"after-ack", "after-ack", "after-ack", "after-begin", "after-begin", "during-open", "at-syscall", "at-syscall", "at-syscall", "at-syscall"}[rng.Intn(10)]
		openSweepN := 0
		if straceOK && c%8 == 4 {
			// crash-point sweep over the reopening of a used store: die on entry to the N-th file-system call
			// of one kind (sweepPoint) of a thread; the points are walked across this directory's cycles and the directories
			trig = "at-syscall"
			openSweepN = 1 + di + nDirsG*sweepIdx // index into the sweep points, 1-based
			sweepIdx++
		}
		if trig == "at-syscall" && !straceOK {
			trig = "during-open"
		}
		k := rng.Intn(120)
		if rng.Intn(4) == 0 {
			k = rng.Intn(8)
		}
		delay := time.Duration(rng.Intn(3000)) * time.Microsecond
		if trig == "during-open" {
			delay = time.Duration(rng.Intn(40000)) * time.Microsecond
		}
		cmd := exec.Command(self, "-mode", "child", "-dir", store, "-cycle", strconv.Itoa(c), "-cseed", strconv.FormatInt(cseed, 10))
		scName, scN := "", 0
		systematic := false // crash images of the systematic schedule are always examined by an undisturbed verifier
		if trig == "at-syscall" {
			// systematic crash points: strace delivers SIGKILL on entry to the N-th call (per thread) of one
			// file-system syscall, i.e. between two steps of badger's file handling that a timer would hardly hit
			scName, scN = pickSyscall(rng)
			systematic = atSys%2 == 0 || openSweepN > 0
			if systematic { // every other one walks the systematic schedule: core file syscalls x N in 1..4
				i := (di*13 + atSys/2) % (len(coreSyscalls) * 4)
				scName, scN = coreSyscalls[i%len(coreSyscalls)], 1+i/len(coreSyscalls)
			}
			atSys++
			if openSweepN > 0 {
				scName, scN = sweepPoint(openSweepN - 1)
				r.Count("reopen_sweep_points", 1)
			}
			cmd = straceCmd(scName, scN, self, "-mode", "child", "-dir", store, "-cycle", strconv.Itoa(c), "-cseed", strconv.FormatInt(cseed, 10))
		}
		cmd.SysProcAttr = &syscall.SysProcAttr{Setpgid: true}
		stdout, _ := cmd.StdoutPipe()
		var stderr bytes.Buffer
		cmd.Stderr = &stderr
		if err := cmd.Start(); err != nil {
			r.Inconclusive("cannot start child: " + err.Error())
			return
		}
		killed := make(chan struct{})
		var killOnce sync.Once
		kill := func() {
			killOnce.Do(func() {
				_ = syscall.Kill(-cmd.Process.Pid, syscall.SIGKILL) // the whole group: strace and its tracee
				_ = cmd.Process.Signal(syscall.SIGKILL)
				close(killed)
			})
		}
		if trig == "during-open" {
			go func() { time.Sleep(delay); kill() }()
		}
		if trig == "at-syscall" { // the N-th call may never come: bounded run
			go func() { time.Sleep(time.Duration(300+rng.Intn(500)) * time.Millisecond); kill() }()
		}
		watchdog := time.AfterFunc(120*time.Second, func() { r.InconclusiveCase("child watchdog fired"); kill() })
		acks, begins := 0, 0
		opened := false
		lastLine := ""
		sc := bufio.NewScanner(stdout)
		sc.Buffer(make([]byte, 1<<16), 1<<20)
		for sc.Scan() {
			line := sc.Text()
			lastLine = line
			f := strings.Fields(line)
			switch {
			case len(f) == 2 && f[0] == "OPEN":
				opened = true
			case len(f) >= 1 && f[0] == "OPENERR":
				r.Violation("reopen-failed-in-writer", map[string]interface{}{"cycle": c, "dir": di, "line": line, "stderr": tail(stderr.String(), 800)})
			case len(f) == 4 && f[0] == "BEGIN":
				cc, _ := strconv.Atoi(f[1])
				seq, _ := strconv.Atoi(f[2])
				ver, _ := strconv.Atoi(f[3])
				key := idKey{cc, seq}
				st := ids[key]
				if st == nil {
					st = &idState{begun: map[int]bool{}, lastAck: -1, ackSha: map[int]string{}}
					ids[key] = st
					order = append(order, key)
				}
				st.begun[ver] = true
				begins++
				if trig == "after-begin" && begins == k+1 {
					go func() { time.Sleep(delay / 4); kill() }()
				}
			case len(f) == 5 && f[0] == "ACK":
				cc, _ := strconv.Atoi(f[1])
				seq, _ := strconv.Atoi(f[2])
				ver, _ := strconv.Atoi(f[3])
				st := ids[idKey{cc, seq}]
				if st != nil {
					if ver > st.lastAck {
						st.lastAck = ver
					}
					st.ackSha[ver] = f[4]
					if want := shaOf(mkVAA(cseed, cc, seq, ver)); want != f[4] {
						r.Violation("child-acked-unexpected-content", map[string]interface{}{"line": line})
					}
				}
				acks++
				r.Count("acks", 1)
				if trig == "after-ack" && acks == k+1 {
					go func() { time.Sleep(delay); kill() }()
				}
			case len(f) >= 1 && f[0] == "STOREERR":
				r.Count("store_errors", 1)
			}
		}
		if trig == "at-syscall" {
			kill() // stdout closed: the tracee is gone (or the bound fired); make sure nothing of the group survives
		}
		<-killed
		_ = cmd.Wait()
		watchdog.Stop()
		flushSeen += strings.Count(stderr.String(), "Flushing memtable") + strings.Count(stderr.String(), "ompact")
		phase := "between-stores"
		switch {
		case !opened:
			phase = "during-open"
		case strings.HasPrefix(lastLine, "BEGIN"):
			phase = "inside-store"
		}
		r.Count("kills", 1)
		r.Count("kill_phase_"+phase, 1)
		r.Distinct("kill_points", fmt.Sprintf("%s/%d", phase, acks))
		if trig == "at-syscall" {
			r.Count("kills_at_syscall_entry", 1)
			r.Distinct("syscall_kill_points", fmt.Sprintf("%s#%d/%s", scName, scN, phase))
			trig = fmt.Sprintf("at-syscall:%s#%d", scName, scN)
		}

		if os.Getenv("C16_DEBUG") != "" {
			es, _ := os.ReadDir(store)
			var l []string
			for _, e := range es {
				fi, _ := e.Info()
				if fi != nil {
					l = append(l, fmt.Sprintf("%s:%d", e.Name(), fi.Size()))
				}
			}
			fmt.Fprintf(os.Stderr, "DEBUG dir=%d cycle=%d trig=%s phase=%s acks=%d files=%v\n", di, c, trig, phase, acks, l)
		}
		// ---- verifier (sometimes killed during its own reopen first)
		idsFile := filepath.Join(base, "ids.txt")
		var sb strings.Builder
		for _, key := range order {
			fmt.Fprintf(&sb, "%d %d\n", key.c, key.seq)
		}
		_ = os.WriteFile(idsFile, []byte(sb.String()), 0o644)
		if rng.Intn(4) == 0 && !systematic {
			v0 := exec.Command(self, "-mode", "verify", "-dir", store, "-cseed", strconv.FormatInt(cseed, 10), "-ids", idsFile)
			wait := time.Duration(rng.Intn(30000)) * time.Microsecond
			if straceOK && rng.Intn(2) == 0 { // the recovery itself dies at a syscall boundary
				n, k := pickSyscall(rng)
				v0 = straceCmd(n, k, self, "-mode", "verify", "-dir", store, "-cseed", strconv.FormatInt(cseed, 10), "-ids", idsFile)
				wait = 800 * time.Millisecond
				r.Count("kills_at_syscall_entry", 1)
				r.Distinct("syscall_kill_points", fmt.Sprintf("%s#%d/verifier-reopen", n, k))
			}
			v0.SysProcAttr = &syscall.SysProcAttr{Setpgid: true}
			v0.Stdout, v0.Stderr = io.Discard, io.Discard
			if v0.Start() == nil {
				done := make(chan struct{})
				go func() { _ = v0.Wait(); close(done) }()
				select {
				case <-done:
				case <-time.After(wait):
				}
				_ = syscall.Kill(-v0.Process.Pid, syscall.SIGKILL)
				_ = v0.Process.Signal(syscall.SIGKILL)
				<-done
				r.Count("kills", 1)
				r.Count("kill_phase_verifier-reopen", 1)
				r.Distinct("kill_points", fmt.Sprintf("verifier-reopen/%d", c%7))
			}
		}
		vc := exec.Command(self, "-mode", "verify", "-dir", store, "-cseed", strconv.FormatInt(cseed, 10), "-ids", idsFile)
		var vout, verr lockedBuffer
		vc.Stdout, vc.Stderr = &vout, &verr
		done := make(chan error, 1)
		if err := vc.Start(); err != nil {
			r.InconclusiveCase("cannot start verifier")
			return
		}
		go func() { done <- vc.Wait() }()
		finished := false
		select {
		case err = <-done:
			finished = true
		case <-time.After(30 * time.Second):
		}
		if !finished && !strings.Contains(vout.String(), "VERIFY-OPEN-OK") {
			// db.Open has not returned for half a minute (it takes milliseconds): ask the process for its goroutines and see where it is
			_ = vc.Process.Signal(syscall.SIGQUIT)
			select {
			case <-done:
			case <-time.After(10 * time.Second):
				_ = vc.Process.Kill()
				<-done
			}
			dump := verr.String()
			if strings.Contains(dump, "pkg/db.Open") {
				i := strings.Index(dump, "pkg/db.Open")
				st := strings.LastIndex(dump[:i], "goroutine ")
				r.Violation("store-does-not-reopen-after-kill", map[string]interface{}{"cycle": c, "dir": di, "kill_phase": phase, "acks_before_kill": acks, "what": "db.Open has not returned after 30 s",
					"goroutine_inside_open": tail(dump[st:minInt(len(dump), st+1800)], 1800)})
			} else {
				r.InconclusiveCase("verifier did not open the store within 30 s and no goroutine was found inside db.Open")
			}
			return
		}
		if !finished {
			select {
			case err = <-done:
			case <-time.After(30 * time.Second):
				// a minute for a few thousand lookups: where is it?
				_ = vc.Process.Signal(syscall.SIGQUIT)
				select {
				case <-done:
				case <-time.After(10 * time.Second):
					_ = vc.Process.Kill()
					<-done
				}
				dump := verr.String()
				where := func(sym string) string {
					i := strings.Index(dump, sym)
					st := strings.LastIndex(dump[:i], "goroutine ")
					return tail(dump[st:minInt(len(dump), st+1800)], 1800)
				}
				switch {
				case strings.Contains(dump, "pkg/db.Open"):
					r.Violation("store-does-not-reopen-after-kill", map[string]interface{}{"cycle": c, "dir": di, "kill_phase": phase, "what": "db.Open has not returned after 60 s", "goroutine_inside_open": where("pkg/db.Open")})
					return
				case strings.Contains(dump, "pkg/db.(*Database).GetSignedVAABytes"):
					r.Violation("acknowledged-write-unreadable", map[string]interface{}{"cycle": c, "dir": di, "kill_phase": phase, "what": "a lookup after the reopen has not returned after 60 s", "goroutine_inside_lookup": where("pkg/db.(*Database).GetSignedVAABytes")})
					return
				default:
					// e.g. stuck while closing the store: says nothing about what was acknowledged; the process is gone now (one more
					// kill point), carry on with the next cycle
					r.InconclusiveCase("verifier did not finish within 60 s outside Open / lookup (killed; next cycle continues)")
					r.Count("verifier_stuck_outside_open_and_lookup", 1)
					continue
				}
			}
		}
		vs := vout.String()
		if os.Getenv("C16_DEBUG") != "" {
			fmt.Fprintf(os.Stderr, "DEBUG dir=%d cycle=%d verifier err=%v out=%q\n", di, c, err, tail(vs, 120))
		}
		if err != nil || !strings.Contains(vs, "VERIFY-OPEN-OK") || !strings.Contains(vs, "VERIFY-DONE") {
			cls := "store-does-not-reopen-after-kill"
			if strings.Contains(verr.String(), "panic:") {
				cls = "verifier-panic-after-kill"
			}
			r.Violation(cls, map[string]interface{}{"cycle": c, "dir": di, "kill_phase": phase, "acks_before_kill": acks, "stdout": tail(vs, 300), "stderr": tail(verr.String(), 1200)})
			return
		}
		got := map[idKey]string{}
		for _, line := range strings.Split(vs, "\n") {
			f := strings.Fields(line)
			if len(f) >= 4 && f[0] == "GOT" {
				cc, _ := strconv.Atoi(f[1])
				seq, _ := strconv.Atoi(f[2])
				got[idKey{cc, seq}] = strings.Join(f[3:], " ")
			}
		}
		for _, key := range order {
			st := ids[key]
			g, ok := got[key]
			w := map[string]interface{}{"dir": di, "after_cycle": c, "id_cycle": key.c, "seq": key.seq, "got": g, "last_acked_version": st.lastAck, "kill_phase": phase, "trigger": trig, "acks_before_kill": acks}
			if !ok {
				r.Violation("verifier-skipped-id", w)
				continue
			}
			allowed := map[string]bool{}
			for ver := range st.begun {
				if ver >= st.lastAck {
					allowed[shaOf(mkVAA(cseed, key.c, key.seq, ver))] = true
				}
			}
			switch {
			case st.lastAck >= 0:
				r.Count("acked_checked", 1)
				if g == "NOTFOUND" {
					r.Violation("acknowledged-write-lost", w)
				} else if strings.HasPrefix(g, "ERR") {
					r.Violation("acknowledged-write-unreadable", w)
				} else if !allowed[g] {
					if g == shaOf(mkVAA(cseed, key.c, key.seq, st.lastAck-1)) {
						r.Violation("acknowledged-overwrite-rolled-back", w)
					} else {
						r.Violation("lookup-returns-foreign-bytes", w)
					}
				}
			default:
				r.Count("unacked_checked", 1)
				if g != "NOTFOUND" && !allowed[g] {
					r.Violation("lookup-returns-foreign-bytes", w)
				}
				if g != "NOTFOUND" {
					r.Count("unacked_but_durable", 1)
				}
			}
		}
		if c == 0 && di == 0 {
			r.Sample(map[string]interface{}{"dir": di, "cycle": c, "trigger": trig, "k": k, "delay_us": delay.Microseconds(), "phase": phase, "acks_before_kill": acks, "ids_checked": len(order)})
		}
	}
	var sst, total int64
	_ = filepath.Walk(store, func(p string, info os.FileInfo, err error) error {
		if err == nil && !info.IsDir() {
			total += info.Size()
			if strings.HasSuffix(p, ".sst") {
				sst++
			}
		}
		return nil
	})
	r.Count("sst_files_at_end", sst)
	r.Count("store_bytes_at_end", total)
	r.Count("badger_flush_or_compaction_log_lines", int64(flushSeen))
}

func tail(s string, n int) string {
	if len(s) > n {
		return s[len(s)-n:]
	}
	return s
}

func minInt(a, b int) int {
	if a < b {
		return a
	}
	return b
}
