// C17 - re-observation requests are routed once per transaction and never block.
// The real handleReobservationRequests runs against a harness clock (mock Now, purge ticks
// delivered by the harness on an unbuffered ticker channel) and per-chain queues of every
// capacity and fill level; every step is followed by a sentinel request that proves the
// dispatcher has processed everything before it.
package main

import (
	"context"
	"fmt"
	"math/rand"
	"runtime"
	"strings"
	"sync"
	"sync/atomic"
	"time"

	"github.com/alephium/wormhole-fork/node/cmd/guardiand"
	"github.com/alephium/wormhole-fork/node/pkg/common"
	gossipv1 "github.com/alephium/wormhole-fork/node/pkg/proto/gossip/v1"
	"github.com/alephium/wormhole-fork/node/pkg/vaa"
	"github.com/benbjohnson/clock"
	"go.uber.org/zap"
	"verif/harness/node/internal/vlib"
)

var r *vlib.Run
var blockedSeqs int32

// hclock is the library's mock clock; it only remembers the tickers the dispatcher creates so that the harness can
// wait until a tick that fell due has been taken (any use of the clock - Ticker, Reset, Stop, Timer, After, Now -
// behaves as the library defines it).
type hclock struct {
	*clock.Mock
	mu      sync.Mutex
	tickers []*clock.Ticker
}

func (h *hclock) Ticker(d time.Duration) *clock.Ticker {
	t := h.Mock.Ticker(d)
	h.mu.Lock()
	h.tickers = append(h.tickers, t)
	h.mu.Unlock()
	return t
}

// ticksTaken waits until no tick is left undelivered in a ticker channel.
func (h *hclock) ticksTaken(wd time.Duration) bool {
	deadline := time.Now().Add(wd)
	for {
		pending := 0
		h.mu.Lock()
		for _, t := range h.tickers {
			pending += len(t.C)
		}
		h.mu.Unlock()
		if pending == 0 {
			return true
		}
		if time.Now().After(deadline) {
			return false
		}
		time.Sleep(50 * time.Microsecond)
	}
}

const sentinelChain = vaa.ChainID(60000)

type key struct {
	chain uint32
	tx    string
}

func dump() string {
	buf := make([]byte, 1<<20)
	n := runtime.Stack(buf, true)
	s := string(buf[:n])
	i := strings.Index(s, "handleReobservationRequests")
	if i < 0 {
		return "dispatcher goroutine not found"
	}
	st := strings.LastIndex(s[:i], "goroutine ")
	en := strings.Index(s[i:], "\n\n")
	if en < 0 {
		en = len(s) - i
	}
	return s[st : i+en]
}

func main() {
	r = vlib.Start("C17", "exploration")
	rng := r.Rand("sequences")
	nSeq := r.Pick(500, 20000)
	for s := 0; s < nSeq; s++ {
		runSeq(rng, s)
		if atomic.LoadInt32(&blockedSeqs) >= 3 {
			// a dispatcher that blocks costs a 5 s watchdog per sequence: three witnesses are enough, the verdict is
			// a violation already and the remaining sequences would only repeat it
			r.Count("sequences_skipped_after_repeated_blocking", int64(nSeq-s-1))
			break
		}
	}
	// PostObservationRequest on a full queue must fail immediately
	for _, capN := range []int{0, 1, 3, common.ObsvReqChannelSize} {
		ch := make(chan *gossipv1.ObservationRequest, capN)
		okN := 0
		for i := 0; i < capN+5; i++ {
			done := make(chan error, 1)
			go func() { done <- common.PostObservationRequest(ch, &gossipv1.ObservationRequest{ChainId: 2}) }()
			select {
			case err := <-done:
				r.Count("post_calls", 1)
				if err == nil {
					okN++
				} else if err != common.ErrChanFull {
					r.Violation("post:unexpected-error", map[string]interface{}{"err": err.Error()})
				}
			case <-time.After(5 * time.Second):
				r.Violation("post:blocks-on-full-queue", map[string]interface{}{"cap": capN, "stack": "PostObservationRequest did not return within 5s"})
			}
		}
		if okN != capN {
			r.Violation("post:accepted-count!=capacity", map[string]interface{}{"cap": capN, "accepted": okN})
		}
	}
	r.Count("evaluations", r.GetCount("steps"))
	if r.GetCount("forwarded") == 0 || r.GetCount("suppressed_duplicates") == 0 || r.GetCount("dropped_full") == 0 || r.GetCount("forwarded_after_window") == 0 {
		r.Inconclusive("a routing outcome was never observed")
	}
	r.Assume("suppression window judged as an envelope: a repeat <= 11 min after the last forward must be suppressed, one > 18 min after it (11 min + one 7-minute purge period) must be forwarded; in between either is accepted",
		"chain ids above 65535 name no chain (the wire field is 32 bits wide, chain ids are 16 bits)")
	r.Finish("evaluations", "sequences", "1-4 chains with queue capacities 0-3 (plus an unknown chain and ids > 65535), 1-6 transactions, 20-200 steps of request / clock advance 1 s..25 min / drain k, purge ticks every 7 min at a random phase; distinct non-trivial = distinct (chain layout, step sequence) pairs", 50)
}

func runSeq(rng *rand.Rand, sIdx int) {
	ctx, cancel := context.WithCancel(context.Background())
	defer cancel()
	mock := clock.NewMock()
	base := time.Unix(1700000000, 0)
	mock.Set(base)
	clk := &hclock{Mock: mock}
	obsvReqC := make(chan *gossipv1.ObservationRequest)
	chains := map[vaa.ChainID]chan *gossipv1.ObservationRequest{}
	model := map[vaa.ChainID][]*gossipv1.ObservationRequest{}
	allIDs := []vaa.ChainID{2, 4, 255, 10}
	nCh := 1 + rng.Intn(4)
	var ids []vaa.ChainID
	layout := ""
	for i := 0; i < nCh; i++ {
		c := rng.Intn(4)
		chains[allIDs[i]] = make(chan *gossipv1.ObservationRequest, c)
		ids = append(ids, allIDs[i])
		layout += fmt.Sprintf("%d:cap%d ", allIDs[i], c)
	}
	sent := make(chan *gossipv1.ObservationRequest, 1)
	chains[sentinelChain] = sent
	go guardiand.VerifHandleReobservationRequests(ctx, clk, zap.NewNop(), obsvReqC, chains)

	nTx := 1 + rng.Intn(6)
	family := rng.Intn(3)
	prefix := make([]byte, 32)
	rng.Read(prefix)
	var txPool []string
	for i := 0; i < nTx; i++ {
		switch family {
		case 0:
			txPool = append(txPool, fmt.Sprintf("tx-%d", i))
		case 1: // 32-byte ids, and longer ones that agree on the first 32 bytes
			id := append([]byte{}, prefix...)
			if i > 0 {
				id = append(id, byte(i), byte(i>>1))
			}
			txPool = append(txPool, string(id))
		default: // ids that differ only in trailing zero bytes (and the empty id)
			txPool = append(txPool, string(append([]byte("ab")[:2*minInt(i, 1)], make([]byte, maxInt(i-1, 0))...)))
		}
	}
	now := base
	phase := time.Duration(rng.Intn(14)) * 30 * time.Second
	lastFwd := map[key]time.Time{}
	var trace []string
	sentinelN := 0
	blocked := false
	send := func(req *gossipv1.ObservationRequest, what string) bool {
		select {
		case obsvReqC <- req:
			return true
		case <-time.After(5 * time.Second):
			blocked = true
			r.Violation("dispatcher-blocked:"+what, map[string]interface{}{"layout": layout, "trace": tailS(trace, 30), "dispatcher_goroutine": dump()})
			return false
		}
	}
	sentinel := func() bool {
		sentinelN++
		tx := []byte(fmt.Sprintf("sentinel-%d-%d", sIdx, sentinelN))
		if !send(&gossipv1.ObservationRequest{ChainId: uint32(sentinelChain), TxHash: tx}, "sentinel") {
			return false
		}
		select {
		case <-sent:
			return true
		case <-time.After(5 * time.Second):
			blocked = true
			r.Violation("dispatcher-blocked:sentinel-not-forwarded", map[string]interface{}{"layout": layout, "trace": tailS(trace, 30), "dispatcher_goroutine": dump()})
			return false
		}
	}
	lens := func() map[vaa.ChainID]int {
		m := map[vaa.ChainID]int{}
		for _, c := range ids {
			m[c] = len(chains[c])
		}
		return m
	}
	// advance moves the mock clock; ticks that fall due are delivered by the library's ticker, and the harness waits
	// until the dispatcher has taken them and has gone round its loop once more
	advance := func(d time.Duration) {
		mock.Add(d)
		now = mock.Now()
		if !clk.ticksTaken(5 * time.Second) {
			blocked = true
			r.Violation("dispatcher-blocked:purge-tick", map[string]interface{}{"layout": layout, "trace": tailS(trace, 30), "dispatcher_goroutine": dump()})
			return
		}
		sentinel()
	}
	if !sentinel() { // the dispatcher is in its loop: its ticker (if any) exists and started at `base`
		return
	}
	advance(phase) // requests come at a random phase of the purge period
	// doRequest sends one request and judges where it went (the per-request oracle)
	doRequest := func(cid uint32, tx string, kind string) bool {
			req := &gossipv1.ObservationRequest{ChainId: cid, TxHash: []byte(tx)}
			before := lens()
			trace = append(trace, fmt.Sprintf("t=%s request(chain=%d,tx=%x)", now.Sub(base), cid, tx))
			if !send(req, "request") || !sentinel() {
				return false
			}
			after := lens()
			r.Count("requests", 1)
			w := func(extra map[string]interface{}) map[string]interface{} {
				m := map[string]interface{}{"layout": layout, "purge_phase": phase.String(), "trace": tailS(trace, 40), "request_chain": cid, "tx": fmt.Sprintf("%x", tx), "queue_lengths_before": fmt.Sprint(before), "queue_lengths_after": fmt.Sprint(after)}
				for k, v := range extra {
					m[k] = v
				}
				return m
			}
			// where did it go?
			var went []vaa.ChainID
			for _, c := range ids {
				switch after[c] - before[c] {
				case 0:
				case 1:
					went = append(went, c)
				default:
					r.Violation("queue-length-changed-unexpectedly", w(nil))
				}
			}
			k := key{cid, tx}
			switch kind {
			case "unknown-chain", "chain-id-above-65535":
				if len(went) > 0 {
					r.Violation("request-for-"+kind+"-forwarded-to-a-watcher", w(map[string]interface{}{"forwarded_to": fmt.Sprint(went)}))
					for _, c := range went { // keep the FIFO model in sync
						model[c] = append(model[c], req)
					}
				}
				r.Count("unknown_chain_requests", 1)
			default:
				c := vaa.ChainID(cid)
				for _, g := range went {
					if g != c {
						r.Violation("request-forwarded-to-another-chains-watcher", w(map[string]interface{}{"forwarded_to": fmt.Sprint(went)}))
						model[g] = append(model[g], req)
					}
				}
				fw := after[c]-before[c] == 1
				if fw {
					model[c] = append(model[c], req)
				}
				room := before[c] < cap(chains[c])
				t0, had := lastFwd[k]
				switch {
				case fw && had && now.Sub(t0) <= 11*time.Minute:
					r.Violation("duplicate-forwarded-within-suppression-window", w(map[string]interface{}{"since_last_forward": now.Sub(t0).String()}))
				case !fw && room && (!had || now.Sub(t0) > 18*time.Minute):
					cls := "request-not-forwarded-although-queue-has-room"
					if had {
						cls = "request-still-suppressed-after-window-lapsed"
					}
					r.Violation(cls, w(map[string]interface{}{"had_prior_forward": had}))
				case fw && !room:
					r.Violation("forwarded-into-full-queue", w(nil))
				}
				switch {
				case fw && had:
					r.Count("forwarded_after_window", 1)
				case fw:
					r.Count("forwarded", 1)
				case !room:
					r.Count("dropped_full", 1)
				case had:
					r.Count("suppressed_duplicates", 1)
				}
				if fw {
					lastFwd[k] = now
				}
			}
			return true
	}
	nSteps := 20 + rng.Intn(181)
	floodAt := -1
	if sIdx%25 == 7 && len(ids) > 0 { // one sequence in 25 contains a flood: more than a thousand other transactions are forwarded inside one window
		floodAt = rng.Intn(nSteps)
	}
	for st := 0; st < nSteps && !blocked; st++ {
		r.Count("steps", 1)
		if st == floodAt {
			c := ids[rng.Intn(len(ids))]
			if cap(chains[c]) > 0 {
				first := fmt.Sprintf("flood-%d-first", sIdx)
				ok := doRequest(uint32(c), first, "known")
				nFlood := 1100 + rng.Intn(200)
				for i := 0; i < nFlood && ok && !blocked; i++ {
					// make room, then one more distinct transaction
					select {
					case got := <-chains[c]:
						if len(model[c]) > 0 && model[c][0] == got {
							model[c] = model[c][1:]
						}
					default:
					}
					ok = doRequest(uint32(c), fmt.Sprintf("flood-%d-%d", sIdx, i), "known")
				}
				if ok && !blocked {
					trace = append(trace, fmt.Sprintf("flood: %d distinct transactions forwarded on chain %d within the window; the first one is requested again", nFlood, c))
					select {
					case got := <-chains[c]:
						if len(model[c]) > 0 && model[c][0] == got {
							model[c] = model[c][1:]
						}
					default:
					}
					doRequest(uint32(c), first, "known")
					r.Count("floods", 1)
				}
			}
		}
		switch x := rng.Intn(10); {
		case x < 6: // request
			var cid uint32
			kind := "known"
			switch y := rng.Intn(12); {
			case y == 0:
				cid, kind = 77, "unknown-chain"
			case y == 1:
				cid, kind = uint32(ids[rng.Intn(len(ids))])+65536*uint32(1+rng.Intn(3)), "chain-id-above-65535"
			default:
				cid = uint32(ids[rng.Intn(len(ids))])
			}
			// transaction ids are opaque byte strings: the pool of a sequence holds ids of different lengths, ids that share
			// their first 32 bytes, and ids that differ only by trailing zero bytes
			tx := txPool[rng.Intn(nTx)]
			if !doRequest(cid, tx, kind) {
				break
			}
		case x < 8: // advance the clock, delivering the purge ticks that fall due
			d := []time.Duration{time.Second, 30 * time.Second, 3 * time.Minute, 6 * time.Minute, 7 * time.Minute, 10*time.Minute + 59*time.Second, 11*time.Minute + time.Second, 12 * time.Minute, 18*time.Minute + time.Second, 25 * time.Minute}[rng.Intn(10)]
			before := now
			advance(d)
			r.Count("purge_ticks", int64(now.Sub(base)/(7*time.Minute)-before.Sub(base)/(7*time.Minute)))
			trace = append(trace, fmt.Sprintf("advance(%s)", d))
		default: // drain k from one queue, checking FIFO content
			c := ids[rng.Intn(len(ids))]
			k := 1 + rng.Intn(3)
			for i := 0; i < k; i++ {
				select {
				case got := <-chains[c]:
					if len(model[c]) == 0 || model[c][0] != got {
						r.Violation("queue-content-differs-from-forwarded-requests", map[string]interface{}{"layout": layout, "chain": c, "got_chain": got.ChainId, "got_tx": fmt.Sprintf("%x", got.TxHash)})
					} else {
						if uint32(c) != got.ChainId && got.ChainId < 65536 {
							r.Violation("watcher-received-request-naming-another-chain", map[string]interface{}{"chain": c, "got_chain": got.ChainId})
						}
						model[c] = model[c][1:]
					}
					r.Count("drained", 1)
				default:
				}
			}
			trace = append(trace, fmt.Sprintf("drain(chain=%d,%d)", c, k))
		}
	}
	if blocked {
		atomic.AddInt32(&blockedSeqs, 1)
	}
	r.Distinct("sequences", layout+strings.Join(trace, ";"))
	if sIdx < 2 {
		r.Sample(map[string]interface{}{"layout": layout, "purge_phase": phase.String(), "trace": tailS(trace, 40)})
	}
}

func tailS(a []string, n int) []string {
	if len(a) > n {
		return a[len(a)-n:]
	}
	return a
}

func minInt(a, b int) int {
	if a < b {
		return a
	}
	return b
}

func maxInt(a, b int) int {
	if a > b {
		return a
	}
	return b
}
