// C03 - gossip not signed by a current guardian cannot change node state.
// Valid observations, heartbeats and re-observation requests and every single mutation of them
// are delivered to the real handleObservation / processSignedHeartbeat /
// processSignedObservationRequest; acceptability is recomputed independently; a rejected
// message must leave aggregation state and heartbeat table untouched.
package main

import (
	"bytes"
	"encoding/json"
	"fmt"
	"math/rand"
	"reflect"
	"runtime"
	"sync/atomic"
	"sync"
	"time"

	"github.com/alephium/wormhole-fork/node/pkg/common"
	"github.com/alephium/wormhole-fork/node/pkg/p2p"
	gossipv1 "github.com/alephium/wormhole-fork/node/pkg/proto/gossip/v1"
	ethcommon "github.com/ethereum/go-ethereum/common"
	"github.com/libp2p/go-libp2p/core/peer"
	"google.golang.org/protobuf/proto"
	"verif/harness/node/internal/proc"
	"verif/harness/node/internal/vlib"
)

var r *vlib.Run

const hbPrefix = "heartbeat|"
const reqPrefix = "signed_observation_request|"

func setOf(pool []int, idx uint32) *common.GuardianSet {
	gs := &common.GuardianSet{Index: idx}
	for _, k := range pool {
		gs.Keys = append(gs.Keys, vlib.Addr(vlib.Key(k)))
	}
	return gs
}

func inSet(gs *common.GuardianSet, a ethcommon.Address) bool {
	for _, k := range gs.Keys {
		if k == a {
			return true
		}
	}
	return false
}

// ---- independent acceptability predicates

func hbAcceptable(s *gossipv1.SignedHeartbeat, gs *common.GuardianSet) (ethcommon.Address, bool) {
	env := ethcommon.BytesToAddress(s.GuardianAddr)
	if !inSet(gs, env) || len(hbPrefix)+len(s.Heartbeat) < 34 {
		return env, false
	}
	a, err := vlib.Recover(vlib.Keccak(append([]byte(hbPrefix), s.Heartbeat...)), s.Signature)
	if err != nil || a != env {
		return a, false
	}
	var h gossipv1.Heartbeat
	if proto.Unmarshal(s.Heartbeat, &h) != nil {
		return a, false
	}
	return a, true
}

func reqAcceptable(s *gossipv1.SignedObservationRequest, gs *common.GuardianSet) bool {
	env := ethcommon.BytesToAddress(s.GuardianAddr)
	if !inSet(gs, env) || len(reqPrefix)+len(s.ObservationRequest) < 34 {
		return false
	}
	a, err := vlib.Recover(vlib.Keccak(append([]byte(reqPrefix), s.ObservationRequest...)), s.Signature)
	if err != nil || a != env {
		return false
	}
	var h gossipv1.ObservationRequest
	return proto.Unmarshal(s.ObservationRequest, &h) == nil
}

func snapshotHB(gst *common.GuardianSetState) string {
	all := gst.GetAll()
	m := map[string]map[string]string{}
	for a, v := range all {
		m[a.Hex()] = map[string]string{}
		for p, hb := range v {
			b, _ := proto.Marshal(hb)
			m[a.Hex()][string(p)] = fmt.Sprintf("%x", b)
		}
	}
	b, _ := json.Marshal(m)
	return string(b)
}

type mut struct {
	name string
	f    func(payload, sig, addr []byte) ([]byte, []byte, []byte)
}

func flips(rng *rand.Rand, name string, which int, n int) []mut {
	var out []mut
	for bit := 0; bit < n*8; bit += 8 {
		b := bit + rng.Intn(8)
		out = append(out, mut{fmt.Sprintf("%s-bitflip", name), func(p, s, a []byte) ([]byte, []byte, []byte) {
			x := [][]byte{append([]byte{}, p...), append([]byte{}, s...), append([]byte{}, a...)}
			if b/8 < len(x[which]) {
				x[which][b/8] ^= 1 << uint(b%8)
			}
			return x[0], x[1], x[2]
		}})
	}
	return out
}

func main() {
	r = vlib.Start("C03", "exploration")
	rng := r.Rand("gen")
	rounds := r.Pick(3, 60)
	setSizes := []int{1, 3, 19}
	for round := 0; round < rounds; round++ {
		for _, n := range setSizes {
			pool := rng.Perm(60)[:n]
			for i := range pool {
				pool[i] += 1
			}
			gs := setOf(pool, uint32(round))
			// rotated set: drops the first member, adds a new one
			pool2 := append(append([]int{}, pool[1:]...), 90+rng.Intn(9))
			gs2 := setOf(pool2, uint32(round)+1)
			heartbeats(rng, gs, gs2, pool, pool2)
			requests(rng, gs, gs2, pool, pool2)
			observations(rng, pool, pool2, uint64(r.Seed&0xffff)<<24|4<<40|uint64(round*8+n))
		}
	}
	heartbeatCap(rng)
	heartbeatCapStampede(rng, r.Pick(400, 6000))
	for i := 0; i < r.Pick(5, 100); i++ {
		heartbeatCapAged(rng)
	}
	r.Count("evaluations", r.GetCount("messages"))
	if r.GetCount("accepted_heartbeat") == 0 || r.GetCount("accepted_request") == 0 || r.GetCount("accepted_observation") == 0 {
		r.Inconclusive("an unmutated message type was never accepted (vacuous)")
	}
	r.Assume("the dispatch switch inside p2p.Run (libp2p receive loop) is not executed; the verifiers it calls and the processor handler are", "ecrecover/Keccak shared with the code under test")
	r.Finish("evaluations", "mutation_kinds", "for observations, heartbeats and re-observation requests: a valid message by a member, then every single mutation (bit flips across payload, signature, address; outsider signer; member with another member's address; wrong/missing/other type's domain prefix; valid signatures over 32/33-byte pre-images; cross-type replay; empty/64/66-byte signatures; old member after rotation) against sets of 1, 3, 19; distinct non-trivial = distinct (type, mutation kind, expected verdict)", 30)
}

// ---------------------------------------------------------------- heartbeats

func signHB(k int, payload []byte, prefix string) []byte {
	return vlib.Sign(vlib.Key(k), vlib.Keccak(append([]byte(prefix), payload...)))
}

func heartbeats(rng *rand.Rand, gs, gs2 *common.GuardianSet, pool, pool2 []int) {
	k := pool[rng.Intn(len(pool))]
	hb := &gossipv1.Heartbeat{NodeName: fmt.Sprintf("node-%d", k), Counter: rng.Int63(), Timestamp: rng.Int63(), Version: "v1.2.3", GuardianAddr: vlib.Addr(vlib.Key(k)).Hex(), BootTimestamp: rng.Int63()}
	payload, _ := proto.Marshal(hb)
	sig := signHB(k, payload, hbPrefix)
	addr := vlib.Addr(vlib.Key(k)).Bytes()
	other := pool[(indexOf(pool, k)+1)%len(pool)]
	muts := []mut{{"valid", func(p, s, a []byte) ([]byte, []byte, []byte) { return p, s, a }}}
	muts = append(muts, flips(rng, "payload", 0, len(payload))...)
	muts = append(muts, flips(rng, "signature", 1, 65)...)
	muts = append(muts, flips(rng, "address", 2, 20)...)
	muts = append(muts,
		mut{"outsider-signer", func(p, s, a []byte) ([]byte, []byte, []byte) {
			return p, signHB(200, p, hbPrefix), vlib.Addr(vlib.Key(200)).Bytes()
		}},
		mut{"outsider-signs-with-member-address", func(p, s, a []byte) ([]byte, []byte, []byte) { return p, signHB(200, p, hbPrefix), a }},
		mut{"member-signs-with-other-members-address", func(p, s, a []byte) ([]byte, []byte, []byte) { return p, s, vlib.Addr(vlib.Key(other)).Bytes() }},
		mut{"missing-prefix", func(p, s, a []byte) ([]byte, []byte, []byte) { return p, signHB(k, p, ""), a }},
		mut{"other-types-prefix", func(p, s, a []byte) ([]byte, []byte, []byte) { return p, signHB(k, p, reqPrefix), a }},
		mut{"wrong-prefix", func(p, s, a []byte) ([]byte, []byte, []byte) { return p, signHB(k, p, "heartbeat/"), a }},
		mut{"sig-empty", func(p, s, a []byte) ([]byte, []byte, []byte) { return p, nil, a }},
		mut{"sig-64", func(p, s, a []byte) ([]byte, []byte, []byte) { return p, s[:64], a }},
		mut{"sig-66", func(p, s, a []byte) ([]byte, []byte, []byte) { return p, append(append([]byte{}, s...), 0), a }},
		mut{"signature-for-a-VAA-digest", func(p, s, a []byte) ([]byte, []byte, []byte) {
			return p, vlib.Sign(vlib.Key(k), vlib.Digest([]byte("some vaa body"))), a
		}},
		mut{"signature-of-observation-request", func(p, s, a []byte) ([]byte, []byte, []byte) { return p, signHB(k, p, reqPrefix), a }},
	)
	// valid signatures over pre-images of exactly 32 and 33 bytes (and the 34-byte boundary)
	for _, total := range []int{31, 32, 33, 34, 35} {
		total := total
		muts = append(muts, mut{fmt.Sprintf("valid-signature-over-%d-byte-preimage", total), func(p, s, a []byte) ([]byte, []byte, []byte) {
			nameLen := total - len(hbPrefix) - 2
			sp, _ := proto.Marshal(&gossipv1.Heartbeat{NodeName: string(bytes.Repeat([]byte{'n'}, nameLen))})
			return sp, signHB(k, sp, hbPrefix), a
		}})
	}
	muts = append(muts, mut{"valid-signature-over-unparsable-payload", func(p, s, a []byte) ([]byte, []byte, []byte) {
		bad := bytes.Repeat([]byte{0xff}, 40)
		return bad, signHB(k, bad, hbPrefix), a
	}})
	for phase, set := range []*common.GuardianSet{gs, gs2} {
		gst := common.NewGuardianSetState(nil)
		gst.Set(set)
		// pre-populate so that "unchanged" is a non-trivial statement
		pre := &gossipv1.SignedHeartbeat{Heartbeat: payload, Signature: sig, GuardianAddr: addr}
		if _, ok := hbAcceptable(pre, set); ok {
			_, _ = p2p.VerifProcessSignedHeartbeat(peer.ID("pre"), pre, set, gst, false)
		}
		for mi, m := range muts {
			p, s, a := m.f(payload, sig, addr)
			msg := &gossipv1.SignedHeartbeat{Heartbeat: p, Signature: s, GuardianAddr: a}
			signer, want := hbAcceptable(msg, set)
			before := snapshotHB(gst)
			from := peer.ID(fmt.Sprintf("peer-%d", mi%7))
			var got *gossipv1.Heartbeat
			var err error
			var pv interface{}
			func() {
				defer func() { pv = recover() }()
				got, err = p2p.VerifProcessSignedHeartbeat(from, msg, set, gst, false)
			}()
			after := snapshotHB(gst)
			kind := fmt.Sprintf("heartbeat/%s/phase%d", m.name, phase)
			r.Count("messages", 1)
			r.Distinct("mutation_kinds", fmt.Sprintf("heartbeat/%s/%v", m.name, want))
			w := map[string]interface{}{"kind": kind, "set_size": len(set.Keys), "payload": vlib.Hex(p), "signature": vlib.Hex(s), "envelope_addr": vlib.Hex(a), "acceptable": want}
			switch {
			case pv != nil:
				w["panic"] = fmt.Sprint(pv)
				r.Violation("heartbeat:panic:"+m.name, w)
			case !want && err == nil:
				r.Violation("heartbeat:accepted-unauthenticated:"+m.name, w)
			case !want && before != after:
				r.Violation("heartbeat:rejected-but-table-changed:"+m.name, w)
			case want && err != nil:
				r.Violation("heartbeat:rejected-valid:"+m.name, w)
			case want:
				r.Count("accepted_heartbeat", 1)
				st := gst.GetAll()[signer][from]
				if st == nil || !proto.Equal(st, got) {
					r.Violation("heartbeat:not-stored-under-recovered-signer", w)
				}
				for a2, v := range gst.GetAll() {
					if a2 != signer {
						if _, bad := v[from]; bad && !inSet(set, a2) {
							r.Violation("heartbeat:stored-under-non-member-address", w)
						}
					}
				}
			default:
				r.Count("rejected_heartbeat", 1)
			}
			if mi == 0 && phase == 0 && r.GetCount("messages") < 50 {
				r.Sample(w)
			}
		}
	}
}

func indexOf(a []int, x int) int {
	for i, v := range a {
		if v == x {
			return i
		}
	}
	return 0
}

// ---------------------------------------------------------------- observation requests

func requests(rng *rand.Rand, gs, gs2 *common.GuardianSet, pool, pool2 []int) {
	k := pool[rng.Intn(len(pool))]
	tx := make([]byte, 32)
	rng.Read(tx)
	req := &gossipv1.ObservationRequest{ChainId: uint32(1 + rng.Intn(300)), TxHash: tx}
	payload, _ := proto.Marshal(req)
	sig := signHB(k, payload, reqPrefix)
	addr := vlib.Addr(vlib.Key(k)).Bytes()
	other := pool[(indexOf(pool, k)+1)%len(pool)]
	muts := []mut{{"valid", func(p, s, a []byte) ([]byte, []byte, []byte) { return p, s, a }}}
	muts = append(muts, flips(rng, "payload", 0, len(payload))...)
	muts = append(muts, flips(rng, "signature", 1, 65)...)
	muts = append(muts, flips(rng, "address", 2, 20)...)
	muts = append(muts,
		mut{"outsider-signer", func(p, s, a []byte) ([]byte, []byte, []byte) {
			return p, signHB(201, p, reqPrefix), vlib.Addr(vlib.Key(201)).Bytes()
		}},
		mut{"outsider-signs-with-member-address", func(p, s, a []byte) ([]byte, []byte, []byte) { return p, signHB(201, p, reqPrefix), a }},
		mut{"member-signs-with-other-members-address", func(p, s, a []byte) ([]byte, []byte, []byte) { return p, s, vlib.Addr(vlib.Key(other)).Bytes() }},
		mut{"missing-prefix", func(p, s, a []byte) ([]byte, []byte, []byte) { return p, signHB(k, p, ""), a }},
		mut{"other-types-prefix", func(p, s, a []byte) ([]byte, []byte, []byte) { return p, signHB(k, p, hbPrefix), a }},
		mut{"sig-empty", func(p, s, a []byte) ([]byte, []byte, []byte) { return p, nil, a }},
		mut{"sig-64", func(p, s, a []byte) ([]byte, []byte, []byte) { return p, s[:64], a }},
		mut{"sig-66", func(p, s, a []byte) ([]byte, []byte, []byte) { return p, append(append([]byte{}, s...), 0), a }},
		mut{"signature-for-a-VAA-digest", func(p, s, a []byte) ([]byte, []byte, []byte) {
			return p, vlib.Sign(vlib.Key(k), vlib.Digest([]byte("some vaa body"))), a
		}},
	)
	for _, total := range []int{31, 32, 33, 34, 35} {
		total := total
		muts = append(muts, mut{fmt.Sprintf("valid-signature-over-%d-byte-preimage", total), func(p, s, a []byte) ([]byte, []byte, []byte) {
			txLen := total - len(reqPrefix) - 4 // 08 01 12 <len> <tx>
			sp, _ := proto.Marshal(&gossipv1.ObservationRequest{ChainId: 1, TxHash: bytes.Repeat([]byte{7}, txLen)})
			return sp, signHB(k, sp, reqPrefix), a
		}})
	}
	for phase, set := range []*common.GuardianSet{gs, gs2} {
		for _, m := range muts {
			p, s, a := m.f(payload, sig, addr)
			msg := &gossipv1.SignedObservationRequest{ObservationRequest: p, Signature: s, GuardianAddr: a}
			want := reqAcceptable(msg, set)
			var got *gossipv1.ObservationRequest
			var err error
			var pv interface{}
			func() {
				defer func() { pv = recover() }()
				got, err = p2p.VerifProcessSignedObservationRequest(msg, set)
			}()
			r.Count("messages", 1)
			r.Distinct("mutation_kinds", fmt.Sprintf("request/%s/%v", m.name, want))
			w := map[string]interface{}{"kind": fmt.Sprintf("request/%s/phase%d", m.name, phase), "set_size": len(set.Keys), "payload": vlib.Hex(p), "signature": vlib.Hex(s), "envelope_addr": vlib.Hex(a), "acceptable": want}
			switch {
			case pv != nil:
				w["panic"] = fmt.Sprint(pv)
				r.Violation("request:panic:"+m.name, w)
			case !want && (err == nil || got != nil):
				r.Violation("request:accepted-unauthenticated:"+m.name, w)
			case want && err != nil:
				r.Violation("request:rejected-valid:"+m.name, w)
			case want:
				r.Count("accepted_request", 1)
				var exp gossipv1.ObservationRequest
				_ = proto.Unmarshal(p, &exp)
				if !proto.Equal(&exp, got) {
					r.Violation("request:returned-request-differs-from-signed-bytes", w)
				}
			default:
				r.Count("rejected_request", 1)
			}
		}
	}
}

// ---------------------------------------------------------------- observations

func normSnap(rig *proc.Rig) string {
	s := rig.P.VerifSnapshot()
	type e struct {
		D        string
		Own, Sub bool
		Settled  bool
		Retry    uint
		Signers  []string
		GS       int64
		Src      string
	}
	var out []e
	for _, x := range s {
		out = append(out, e{x.Digest, x.HasOurVAA, x.Submitted, x.Settled, x.RetryCount, x.Signers, x.GSIndex, x.Source})
	}
	b, _ := json.Marshal(out)
	return string(b)
}

// beforeAnySet: until the node has learnt a guardian set from the chain nobody is a guardian; whatever
// arrives - however well signed - must leave no trace in the aggregation state and cause no output.
func beforeAnySet(rng *rand.Rand, pool []int, serial uint64) {
	rig, err := proc.New(proc.Options{Key: vlib.Key(proc.NodeKey)})
	if err != nil {
		r.InconclusiveCase("rig: " + err.Error())
		return
	}
	defer rig.Close()
	for i, variant := range []string{"valid", "valid", "nonmember", "wrong-addr", "sig-bitflip"} {
		m := proc.GenMsg(rng, serial, 40+i)
		k := pool[rng.Intn(len(pool))]
		if variant == "nonmember" {
			k = 210 + rng.Intn(10)
		}
		o := proc.MkObs(m, m.Digest, k, variant, rng, vlib.Addr(vlib.Key(211)))
		before := normSnap(rig)
		var pv interface{}
		func() {
			defer func() { pv = recover() }()
			rig.P.VerifHandleObservation(rig.Ctx, o)
		}()
		after := normSnap(rig)
		outs := rig.DrainSend()
		r.Count("messages", 1)
		r.Distinct("mutation_kinds", "observation/before-any-set/"+variant)
		w := map[string]interface{}{"kind": "observation/before-any-set/" + variant, "signer_pool_index": k}
		switch {
		case pv != nil:
			w["panic"] = fmt.Sprint(pv)
			r.Violation("observation:panic:before-any-set:"+variant, w)
		case before != after:
			w["before"], w["after"] = before, after
			r.Violation("observation:unauthenticated-changed-aggregation-state:before-any-set:"+variant, w)
		case len(outs) > 0:
			r.Violation("observation:unauthenticated-caused-output:before-any-set:"+variant, w)
		default:
			r.Count("rejected_observation", 1)
		}
	}
}

func observations(rng *rand.Rand, pool, pool2 []int, serial uint64) {
	beforeAnySet(rng, pool, serial)
	rig, err := proc.New(proc.Options{Key: vlib.Key(proc.NodeKey)})
	if err != nil {
		r.InconclusiveCase("rig: " + err.Error())
		return
	}
	defer rig.Close()
	g1 := &proc.GSet{Index: 1, Pool: pool}
	g2 := &proc.GSet{Index: 2, Pool: pool2}
	md := proc.NewModel()
	md.OnSet(g1)
	rig.P.VerifSetGuardianSet(g1.Common())
	mObserved := proc.GenMsg(rng, serial, 0) // the node observes this one under set 1
	mUnknown := proc.GenMsg(rng, serial, 1)  // never observed locally
	md.OnMsg(mObserved)
	rig.P.VerifHandleMessage(rig.Ctx, mObserved.Pub)
	rig.DrainSend()
	rig.TakeLoopback(0)
	variants := []string{"valid", "forged", "sig-bitflip", "wrong-addr", "nonmember", "sig64", "sig66", "sig-empty", "hash-short", "hash-long", "hash-nil", "addr-nil", "addr-long", "recid+27"}
	deliver := func(phase string, m *proc.Msg, k int, variant string, other ethcommon.Address) {
		o := proc.MkObs(m, m.Digest, k, variant, rng, other)
		_, want := md.ObsAcceptable(o)
		before := normSnap(rig)
		var pv interface{}
		func() {
			defer func() { pv = recover() }()
			md.OnObs(o)
			rig.P.VerifHandleObservation(rig.Ctx, o)
		}()
		after := normSnap(rig)
		outs := rig.DrainSend()
		reqs := rig.DrainReq()
		r.Count("messages", 1)
		r.Distinct("mutation_kinds", fmt.Sprintf("observation/%s/%s/%v", phase, variant, want))
		w := map[string]interface{}{"kind": "observation/" + phase + "/" + variant, "signer_pool_index": k, "hash": vlib.Hex(o.Hash), "signature": vlib.Hex(o.Signature), "addr": vlib.Hex(o.Addr), "acceptable": want, "set1": g1.String(), "set2": g2.String()}
		switch {
		case pv != nil:
			w["panic"] = fmt.Sprint(pv)
			r.Violation("observation:panic:"+variant, w)
		case !want && before != after:
			w["before"], w["after"] = before, after
			r.Violation("observation:unauthenticated-changed-aggregation-state:"+phase+":"+variant, w)
		case !want && (len(outs) > 0 || len(reqs) > 0):
			r.Violation("observation:unauthenticated-caused-output:"+variant, w)
		case want:
			r.Count("accepted_observation", 1)
			a, _ := vlib.Recover(o.Hash, o.Signature)
			if !bytes.Contains([]byte(after), []byte(a.Hex())) {
				r.Violation("observation:valid-signature-not-recorded", w)
			}
		default:
			r.Count("rejected_observation", 1)
		}
	}
	freshN := 1
	run := func(phase string, members []int, outsiders []int) {
		for _, m0 := range []*proc.Msg{mObserved, mUnknown, nil} {
			m := m0
			tag := phase + "/observed"
			if m == mUnknown {
				tag = phase + "/unknown-digest"
			}
			if m0 == nil {
				tag = phase + "/never-seen-digest"
			}
			for _, variant := range variants {
				if m0 == nil {
					// a digest nobody has mentioned before, a new one for every delivery: a dropped observation
					// must not even leave an empty aggregation entry behind
					freshN++
					m = proc.GenMsg(rng, serial, freshN)
				}
				k := members[rng.Intn(len(members))]
				var other ethcommon.Address
				switch variant {
				case "nonmember":
					k = 210 + rng.Intn(10)
				case "wrong-addr":
					other = vlib.Addr(vlib.Key(members[(indexOf(members, k)+1)%len(members)]))
					if len(members) == 1 {
						other = vlib.Addr(vlib.Key(211))
					}
				}
				deliver(tag, m, k, variant, other)
			}
			for _, k := range outsiders {
				if m0 == nil {
					freshN++
					m = proc.GenMsg(rng, serial, freshN)
				}
				deliver(tag+"/member-of-other-set", m, k, "valid", ethcommon.Address{})
			}
			if m0 == nil {
				freshN++
				m = proc.GenMsg(rng, serial, freshN)
			}
			// signatures made for other purposes
			k := members[0]
			hb := []byte("0123456789012345678901234567890")
			o := &gossipv1.SignedObservation{Addr: vlib.Addr(vlib.Key(k)).Bytes(), Hash: m.Digest, Signature: signHB(k, hb, hbPrefix), MessageId: m.ID}
			_, want := md.ObsAcceptable(o)
			before := normSnap(rig)
			md.OnObs(o)
			rig.P.VerifHandleObservation(rig.Ctx, o)
			r.Count("messages", 1)
			r.Distinct("mutation_kinds", fmt.Sprintf("observation/%s/heartbeat-signature-replayed/%v", tag, want))
			if !want && before != normSnap(rig) {
				r.Violation("observation:heartbeat-signature-accepted-for-VAA-digest", map[string]interface{}{"phase": tag})
			}
			rig.DrainSend()
		}
	}
	// phase 1: set 1 current. pool2-only key is an outsider
	run("before-rotation", pool, []int{pool2[len(pool2)-1]})
	// phase 2: rotate. The observed message keeps its snapshot (set 1); unknown digests use set 2
	md.OnSet(g2)
	rig.P.VerifSetGuardianSet(g2.Common())
	run("after-rotation", pool2, []int{pool[0]})
	_ = reflect.DeepEqual
}

// ---------------------------------------------------------------- heartbeat table cap

// heartbeatCapAged: the cap is per guardian whatever the age of other entries. Guardian B's table is filled with
// fresh heartbeats from distinct peers; entries with old timestamps (sender-chosen, so always possible) sit under
// guardian A, under B itself, or nowhere; then more peers announce themselves for B.
func heartbeatCapAged(rng *rand.Rand) {
	pool := []int{1, 2, 3}
	gs := setOf(pool, 0)
	send := func(gst *common.GuardianSetState, k int, peerName string, ts time.Time) {
		hb := &gossipv1.Heartbeat{NodeName: peerName, Counter: 1, Timestamp: ts.UnixNano(), GuardianAddr: vlib.Addr(vlib.Key(k)).Hex(), BootTimestamp: 1234567}
		p, _ := proto.Marshal(hb)
		msg := &gossipv1.SignedHeartbeat{Heartbeat: p, Signature: signHB(k, p, hbPrefix), GuardianAddr: vlib.Addr(vlib.Key(k)).Bytes()}
		_, _ = p2p.VerifProcessSignedHeartbeat(peer.ID(peerName), msg, gs, gst, false)
		r.Count("messages", 1)
		r.Count("cap_calls", 1)
	}
	for _, layout := range []string{"old-entry-under-another-guardian", "old-entries-under-the-same-guardian", "no-old-entries", "old-entries-everywhere"} {
		gst := common.NewGuardianSetState(nil)
		gst.Set(gs)
		old := time.Now().Add(-time.Duration(2+rng.Intn(600)) * time.Minute)
		if layout == "old-entry-under-another-guardian" || layout == "old-entries-everywhere" {
			for i := 0; i < 1+rng.Intn(3); i++ {
				send(gst, 1, fmt.Sprintf("a-old-%d", i), old)
			}
		}
		nOldB := 0
		if layout == "old-entries-under-the-same-guardian" || layout == "old-entries-everywhere" {
			nOldB = 1 + rng.Intn(5)
		}
		for i := 0; i < common.MaxNodesPerGuardian; i++ {
			ts := time.Now()
			if i < nOldB {
				ts = old
			}
			send(gst, 2, fmt.Sprintf("b-%d", i), ts)
		}
		for i := 0; i < 10; i++ { // ten more nodes claim to belong to B
			send(gst, 2, fmt.Sprintf("b-extra-%d", i), time.Now())
			for a, v := range gst.GetAll() {
				if len(v) > common.MaxNodesPerGuardian {
					r.Violation("heartbeat-table:more-than-max-nodes-per-guardian", map[string]interface{}{"guardian": a.Hex(), "entries": len(v), "max": common.MaxNodesPerGuardian, "layout": layout})
				}
			}
		}
		r.Distinct("mutation_kinds", "heartbeat-cap-aged/"+layout)
	}
}

// heartbeatCapStampede: several new nodes of one guardian announce themselves at the same instant while a single slot
// (or two) is still free - its own heartbeat ticker and the gossip loop call SetHeartbeat concurrently. Each round starts
// from a fresh table filled to one or two below the cap; eight goroutines are released by a spin barrier.
func heartbeatCapStampede(rng *rand.Rand, rounds int) {
	addr := vlib.Addr(vlib.Key(1))
	worst := 0
	for rd := 0; rd < rounds; rd++ {
		gst := common.NewGuardianSetState(nil)
		free := 1 + rng.Intn(2)
		for i := 0; i < common.MaxNodesPerGuardian-free; i++ {
			_ = gst.SetHeartbeat(addr, peer.ID(fmt.Sprintf("old-%d", i)), &gossipv1.Heartbeat{NodeName: "n", Timestamp: time.Now().UnixNano()})
		}
		var ready, goFlag int32
		var wg sync.WaitGroup
		for g := 0; g < 8; g++ {
			wg.Add(1)
			go func(g int) {
				defer wg.Done()
				hb := &gossipv1.Heartbeat{NodeName: "new", Timestamp: time.Now().UnixNano()}
				atomic.AddInt32(&ready, 1)
				for atomic.LoadInt32(&goFlag) == 0 {
				}
				_ = gst.SetHeartbeat(addr, peer.ID(fmt.Sprintf("new-%d-%d", rd, g)), hb)
			}(g)
		}
		for atomic.LoadInt32(&ready) < 8 {
			runtime.Gosched()
		}
		atomic.StoreInt32(&goFlag, 1)
		wg.Wait()
		n := len(gst.GetAll()[addr])
		if n > worst {
			worst = n
		}
		r.Count("cap_stampede_rounds", 1)
		r.Count("messages", 8)
		if n > common.MaxNodesPerGuardian {
			r.Violation("heartbeat-table:more-than-max-nodes-per-guardian", map[string]interface{}{"guardian": addr.Hex(), "entries": n, "max": common.MaxNodesPerGuardian, "layout": fmt.Sprintf("%d free slots, 8 new nodes at the same instant", free)})
			break
		}
	}
	r.Distinct("mutation_kinds", fmt.Sprintf("heartbeat-cap-stampede/max=%d", worst))
}

func heartbeatCap(rng *rand.Rand) {
	pool := []int{1, 2, 3}
	gs := setOf(pool, 0)
	gst := common.NewGuardianSetState(nil)
	gst.Set(gs)
	var wg sync.WaitGroup
	var mu sync.Mutex
	maxSeen := 0
	for g := 0; g < 8; g++ {
		wg.Add(1)
		go func(g int) {
			defer wg.Done()
			lr := rand.New(rand.NewSource(int64(g) + r.Seed*100))
			for i := 0; i < 400; i++ {
				k := pool[lr.Intn(2)] // guardians 1 and 2 get 40 peers each
				hb := &gossipv1.Heartbeat{NodeName: fmt.Sprintf("n%d-%d", g, i), Counter: int64(i), Timestamp: lr.Int63(), GuardianAddr: vlib.Addr(vlib.Key(k)).Hex(), BootTimestamp: 1234567}
				p, _ := proto.Marshal(hb)
				msg := &gossipv1.SignedHeartbeat{Heartbeat: p, Signature: signHB(k, p, hbPrefix), GuardianAddr: vlib.Addr(vlib.Key(k)).Bytes()}
				from := peer.ID(fmt.Sprintf("cap-peer-%d", lr.Intn(40)))
				_, _ = p2p.VerifProcessSignedHeartbeat(from, msg, gs, gst, false)
				all := gst.GetAll()
				r.Count("messages", 1)
				r.Count("cap_calls", 1)
				for a, v := range all {
					mu.Lock()
					if len(v) > maxSeen {
						maxSeen = len(v)
					}
					mu.Unlock()
					if len(v) > common.MaxNodesPerGuardian {
						r.Violation("heartbeat-table:more-than-max-nodes-per-guardian", map[string]interface{}{"guardian": a.Hex(), "entries": len(v), "max": common.MaxNodesPerGuardian})
					}
				}
				_ = gst.LastHeartbeat(vlib.Addr(vlib.Key(k)))
			}
		}(g)
	}
	wg.Wait()
	r.Extra("heartbeat_cap_max_entries_seen", maxSeen)
	r.Distinct("mutation_kinds", fmt.Sprintf("heartbeat-cap/max=%d", maxSeen))
	if maxSeen < common.MaxNodesPerGuardian {
		r.Inconclusive("heartbeat cap never reached")
	}
	_ = rng
}
