// C02 - a VAA is published exactly when the node saw the message and quorum signed.
// The real handlers are compared step by step with a reference model (exact expected outputs),
// the same multiset of events is replayed in many orders (confluence; all orders for small
// cases), and scenarios are replayed through the real Run loop where the own-signature
// loop-back races for real.
package main

import (
	"fmt"
	"math/rand"
	"sort"
	"strings"
	"time"

	"github.com/alephium/wormhole-fork/node/pkg/common"
	"github.com/alephium/wormhole-fork/node/pkg/db"
	gossipv1 "github.com/alephium/wormhole-fork/node/pkg/proto/gossip/v1"
	"github.com/alephium/wormhole-fork/node/pkg/vaa"
	ethcommon "github.com/ethereum/go-ethereum/common"
	"verif/harness/node/internal/proc"
	"verif/harness/node/internal/vlib"
)

var r *vlib.Run
var store *db.Database

// execDirect runs one scenario in direct mode with the full step oracle; returns the set of
// published message ids with their bodies.
func execDirect(sc *proc.Scenario, tag string) map[string]string {
	rig, err := proc.New(proc.Options{Key: vlib.Key(proc.NodeKey), DB: store})
	if err != nil {
		r.InconclusiveCase("rig: " + err.Error())
		return nil
	}
	defer rig.Close()
	md := proc.NewModel()
	pub := map[string]string{}
	proc.RunDirect(rig, sc, md, func(rec *proc.StepRecord) {
		r.Count("events", 1)
		if rec.Event.Kind == "restart" { // a new aggregation lifetime: what was published before may be published again
			for k := range pub {
				delete(pub, k)
			}
			r.Count("process_restarts_in_scenarios", 1)
		}
		if rec.Event.Kind == "msg" && len(rec.Expect.Obs) > 0 {
			r.Count("own_observations_checked", 1)
		}
		if len(rec.Expect.VAAs) > 0 {
			r.Count("publications_expected", 1)
			via := "own-signature-last"
			if rec.Event.Kind == "obs" {
				via = "peer-signature-last"
			}
			r.Count("publication_"+via, 1)
		}
		for _, o := range rec.Out {
			if o.Kind == "vaa" {
				if w, err := vlib.ParseWire(o.VAA); err == nil {
					id := fmt.Sprintf("%d/%x/%d/%d", w.EChain, w.Emitter, w.TChain, w.Sequence)
					if _, dup := pub[id]; dup {
						r.Violation("digest-published-twice-in-one-lifetime", map[string]interface{}{"id": id, "scenario": sc.Describe()})
					}
					pub[id] = string(w.Body)
				}
			}
		}
		for _, f := range proc.Judge(sc, md, rec) {
			if f.Prop == "C02" || f.Prop == "C13" {
				cls := f.Class
				if f.Prop == "C13" {
					cls = "handler-" + cls
				}
				f.Witness["phase"] = tag
				r.Violation(cls, f.Witness)
			}
		}
	})
	return pub
}

func addGovMsg(rng *rand.Rand, sc *proc.Scenario, serial uint64) {
	mp := &common.MessagePublication{Timestamp: time.Unix(1650000000, 0), Nonce: rng.Uint32(), Sequence: serial*64 + 60, ConsistencyLevel: 1,
		EmitterChain: proc.GovChain, EmitterAddress: proc.GovEmitter, TargetChain: vaa.ChainID(rng.Intn(3)), Payload: []byte("gov")}
	rng.Read(mp.TxHash[:])
	m := proc.NewMsg(mp)
	sc.Msgs = append(sc.Msgs, m)
	mi := len(sc.Msgs) - 1
	evs := []proc.Event{{Kind: "msg", Msg: mi}}
	for _, k := range sc.Sets[0].Pool {
		if k != proc.NodeKey {
			evs = append(evs, proc.Event{Kind: "obs", Msg: mi, Signer: k, Variant: "valid", Obs: proc.MkObs(m, m.Digest, k, "valid", rng, ethcommon.Address{})})
		}
	}
	evs = append(evs, proc.Event{Kind: "msg", Msg: mi})
	for _, e := range evs {
		at := 1 + rng.Intn(len(sc.Events))
		sc.Events = append(sc.Events[:at], append([]proc.Event{e}, sc.Events[at:]...)...)
	}
	sc.Desc += " +governance-emitter-message"
}

// permute returns a random order of sc's events (set first, loop-backs after a local
// observation of their message), with some observations duplicated.
func permute(rng *rand.Rand, sc *proc.Scenario) *proc.Scenario {
	evs := append([]proc.Event{}, sc.Events[1:]...)
	for _, e := range sc.Events[1:] {
		if e.Kind == "obs" && rng.Intn(8) == 0 {
			evs = append(evs, e)
		}
	}
	rng.Shuffle(len(evs), func(i, j int) { evs[i], evs[j] = evs[j], evs[i] })
	return &proc.Scenario{Sets: sc.Sets, Msgs: sc.Msgs, Events: fixOrder(append([]proc.Event{sc.Events[0]}, evs...)), Desc: sc.Desc + " (permuted)"}
}

func fixOrder(evs []proc.Event) []proc.Event {
	var out []proc.Event
	seen := map[int]int{} // msg -> local observations so far
	used := map[int]int{} // msg -> loop-backs emitted so far
	deferred := map[int]int{}
	for _, e := range evs {
		switch e.Kind {
		case "msg":
			out = append(out, e)
			seen[e.Msg]++
			for deferred[e.Msg] > 0 && used[e.Msg] < seen[e.Msg] {
				out = append(out, proc.Event{Kind: "loopback", Msg: e.Msg})
				deferred[e.Msg]--
				used[e.Msg]++
			}
		case "loopback":
			if used[e.Msg] < seen[e.Msg] {
				out = append(out, e)
				used[e.Msg]++
			} else {
				deferred[e.Msg]++
			}
		default:
			out = append(out, e)
		}
	}
	return out
}

func pubKey(p map[string]string) string {
	var ks []string
	for id, b := range p {
		ks = append(ks, id+"="+fmt.Sprintf("%x", vlib.Digest([]byte(b))[:6]))
	}
	sort.Strings(ks)
	return strings.Join(ks, ",")
}

func main() {
	r = vlib.Start("C02", "exploration")
	rng := r.Rand("scenarios")
	var cleanup func()
	var err error
	store, cleanup, err = proc.OpenScratchDB()
	if err != nil {
		r.Inconclusive("store: " + err.Error())
		r.Finish("scenarios", "orders", "", 1)
	}
	defer cleanup()
	serial := uint64(r.Seed&0xffff)<<24 | 1<<40
	next := func() uint64 { serial++; return serial }
	sizes := []int{1, 2, 3, 4, 5, 7, 13, 19}

	// A. model equality on hostile scenarios with set changes
	nA := r.Pick(300, 6000)
	for i := 0; i < nA; i++ {
		n := sizes[i%len(sizes)]
		s := next()
		sc := proc.Gen(rng, proc.GenOpts{N: n, NodePos: (i/len(sizes))%(n+1) - 1, NSets: 1 + rng.Intn(3), NMsgs: 1 + rng.Intn(3), Serial: s, Hostile: true, SetMoves: true, Restarts: true})
		if rng.Intn(3) == 0 {
			addGovMsg(rng, sc, s)
			r.Count("governance_emitter_scenarios", 1)
		}
		execDirect(sc, "model")
		r.Count("scenarios", 1)
		r.Distinct("orders", sc.OrderHash())
		if i == 0 {
			r.Sample(sc.Describe())
		}
	}

	// B. confluence: one multiset, many orders
	nB, perms := r.Pick(60, 800), r.Pick(10, 40)
	for i := 0; i < nB; i++ {
		n := sizes[rng.Intn(len(sizes))]
		var base *proc.Scenario
		for {
			// the node is a member of the set: only then does its own loop-back count ("its own included")
			base = proc.Gen(rng, proc.GenOpts{N: n, NodePos: rng.Intn(n), NSets: 1, NMsgs: 1 + rng.Intn(2), Serial: next(), Hostile: true, SetMoves: false})
			if base.Events[0].Kind == "set" {
				break
			}
		}
		// every permutation must see the same loop-back supply: exactly one loop-back event per local observation
		var evs []proc.Event
		for _, e := range base.Events {
			if e.Kind != "loopback" {
				evs = append(evs, e)
			}
			if e.Kind == "msg" {
				evs = append(evs, proc.Event{Kind: "loopback", Msg: e.Msg})
			}
		}
		base.Events = evs
		want := ""
		for p := 0; p < perms; p++ {
			sc := base
			if p > 0 {
				sc = permute(rng, base)
			}
			// fresh message ids per replay: same messages, but the store is shared -> rebuild with new sequence numbers
			sc = reserial(sc, next())
			got := normalize(execDirect(sc, "confluence"), sc)
			r.Count("scenarios", 1)
			r.Count("confluence_replays", 1)
			r.Distinct("orders", sc.OrderHash())
			if p == 0 {
				want = got
			} else if got != want {
				r.Violation("published-set-depends-on-arrival-order", map[string]interface{}{"first_order": base.Describe(), "this_order": sc.Describe(), "published_first": want, "published_this": got})
			}
		}
	}

	// C. all orders of small multisets (exhaustive for that sub-space)
	exh := 0
	for n := 1; n <= 4; n++ {
		for pos := 0; pos < n; pos++ {
			g := &proc.GSet{Index: 3}
			k := 1
			for i := 0; i < n; i++ {
				if i == pos {
					g.Pool = append(g.Pool, proc.NodeKey)
				} else {
					g.Pool = append(g.Pool, k)
					k++
				}
			}
			m0 := proc.GenMsg(rng, next(), 0)
			base := []proc.Event{{Kind: "msg", Msg: 0}, {Kind: "loopback", Msg: 0}}
			for _, kk := range g.Pool {
				if kk != proc.NodeKey {
					base = append(base, proc.Event{Kind: "obs", Msg: 0, Signer: kk, Variant: "valid"})
				}
			}
			want := ""
			permuteAll(len(base), func(ix []int) {
				var evs []proc.Event
				for _, j := range ix {
					evs = append(evs, base[j])
				}
				// loop-back must follow the local observation
				mi, li := -1, -1
				for p, e := range evs {
					if e.Kind == "msg" {
						mi = p
					}
					if e.Kind == "loopback" {
						li = p
					}
				}
				if li < mi {
					return
				}
				m := proc.NewMsg(&common.MessagePublication{TxHash: m0.Pub.TxHash, Timestamp: m0.Pub.Timestamp, Nonce: m0.Pub.Nonce, Sequence: next() * 64, ConsistencyLevel: 1,
					EmitterChain: 2, TargetChain: 3, EmitterAddress: m0.Pub.EmitterAddress, Payload: m0.Pub.Payload})
				for p := range evs {
					if evs[p].Kind == "obs" {
						evs[p].Obs = proc.MkObs(m, m.Digest, evs[p].Signer, "valid", rng, ethcommon.Address{})
					}
				}
				sc := &proc.Scenario{Sets: []*proc.GSet{g}, Msgs: []*proc.Msg{m}, Events: append([]proc.Event{{Kind: "set", Set: 0}}, evs...), Desc: fmt.Sprintf("exhaustive n=%d pos=%d", n, pos)}
				got := fmt.Sprint(len(execDirect(sc, "exhaustive")))
				exh++
				r.Count("scenarios", 1)
				r.Distinct("orders", sc.OrderHash())
				if want == "" {
					want = got
				} else if got != want {
					r.Violation("published-set-depends-on-arrival-order", map[string]interface{}{"order": sc.Describe(), "published": got, "first": want})
				}
			})
		}
	}
	r.Extra("exhaustive_small_orders", exh)
	r.Extra("exhaustive_subspace", "all orders of {local observation, loop-back, one valid observation per other member} for n=1..4 and every node position")

	// D. run mode: real loop, real loop-back race; final published set must equal the model's
	nD := r.Pick(50, 500)
	for i := 0; i < nD; i++ {
		n := sizes[rng.Intn(len(sizes))]
		var sc *proc.Scenario
		for {
			sc = proc.Gen(rng, proc.GenOpts{N: n, NodePos: rng.Intn(n+1) - 1, NSets: 1, NMsgs: 1 + rng.Intn(3), Serial: next(), Hostile: true, SetMoves: false})
			if sc.Events[0].Kind == "set" {
				break
			}
		}
		rig, err := proc.New(proc.Options{Key: vlib.Key(proc.NodeKey), DB: store, Run: true})
		if err != nil {
			r.InconclusiveCase("rig: " + err.Error())
			break
		}
		md := proc.NewModel()  // tracked by RunLoop: sets and local observations
		ref := proc.NewModel() // reference for the final state
		pubs := map[string]int{}
		var own []*gossipv1.SignedObservation
		note := func(outs []proc.Out) {
			for _, o := range outs {
				switch o.Kind {
				case "vaa":
					if w, err := vlib.ParseWire(o.VAA); err == nil {
						pubs[fmt.Sprintf("%d/%x/%d/%d", w.EChain, w.Emitter, w.TChain, w.Sequence)]++
					}
				case "obs":
					own = append(own, o.Obs)
				}
			}
		}
		err = proc.RunLoop(rig, sc, md, func(rec *proc.StepRecord) {
			r.Count("events", 1)
			r.Count("run_mode_events", 1)
			note(rec.Out)
			switch rec.Event.Kind {
			case "set":
				ref.OnSet(sc.Sets[rec.Event.Set])
			case "msg":
				ref.OnMsg(sc.Msgs[rec.Event.Msg])
			case "obs":
				ref.OnObs(rec.Event.Obs)
			case "inbound":
				ref.OnInbound(rec.Event.VAA)
			}
		})
		if err == nil {
			var outs []proc.Out
			outs, err = rig.Quiesce(own)
			note(outs)
			for _, o := range own {
				ref.OnObs(o)
			}
		}
		if err != nil {
			r.InconclusiveCase("run mode: " + err.Error())
		} else {
			for _, m := range sc.Msgs {
				wantPub := ref.Published(m)
				r.Count("run_mode_messages_checked", 1)
				switch {
				case wantPub && pubs[m.ID] == 0:
					r.Violation("run-mode:publication-missing-at-quorum", map[string]interface{}{"id": m.ID, "scenario": sc.Describe()})
				case !wantPub && pubs[m.ID] > 0:
					r.Violation("run-mode:publication-unexpected", map[string]interface{}{"id": m.ID, "scenario": sc.Describe()})
				case pubs[m.ID] > 1:
					r.Violation("run-mode:digest-published-twice-in-one-lifetime", map[string]interface{}{"id": m.ID, "scenario": sc.Describe()})
				}
				if wantPub {
					r.Count("run_mode_publications", 1)
				}
			}
		}
		select {
		case e := <-rig.RunErr:
			r.Violation("run-mode:processor-loop-exited", map[string]interface{}{"err": fmt.Sprint(e)})
		default:
		}
		rig.Close()
		r.Count("scenarios", 1)
		r.Count("scenarios_run_mode", 1)
	}
	if r.GetCount("publications_expected") == 0 || r.GetCount("run_mode_publications") == 0 {
		r.Inconclusive("no publication was ever expected")
	}
	r.Assume("an observation counts as delivered-valid if it authenticates against the guardian set applicable at the moment of its delivery",
		"confluence is asserted only for multisets without guardian-set changes (with a set change the outcome legitimately depends on order) and for a node that is a member of the set (a non-member's own loop-back is not a valid observation, so a local observation that arrives after all peers' signatures is only completed by the next retransmission)")
	r.Finish("scenarios", "orders", "A: hostile scenarios with set changes, every step's outputs (own observation, quorum VAA bytes, store) equal to the reference model's; B: fixed multisets replayed in random orders with duplications, published set equal across orders; C: every order of small multisets; D: scenarios through the real Run loop with the real loop-back race, final published set equal to the model's; distinct non-trivial = distinct delivery orders executed", 100)
}

// reserial clones a scenario with fresh message sequence numbers (the badger store is shared).
func reserial(sc *proc.Scenario, serial uint64) *proc.Scenario {
	out := &proc.Scenario{Sets: sc.Sets, Desc: sc.Desc}
	rng := rand.New(rand.NewSource(int64(serial)))
	for j, m := range sc.Msgs {
		mp := *m.Pub
		mp.Sequence = serial*64 + uint64(j)
		out.Msgs = append(out.Msgs, proc.NewMsg(&mp))
	}
	for _, e := range sc.Events {
		ne := e
		switch e.Kind {
		case "obs":
			m := out.Msgs[e.Msg]
			d := m.Digest
			if e.Variant == "other-digest" {
				d = vlib.Digest(append(append([]byte{}, m.Body...), 0x99))
			}
			var other ethcommon.Address
			if e.Variant == "wrong-addr" {
				other = ethcommon.BytesToAddress(e.Obs.Addr)
			}
			ne.Obs = proc.MkObs(m, d, e.Signer, e.Variant, rng, other)
		case "inbound":
			// re-sign the same shape over the new body when the VAA was for this message
			if w, err := vlib.ParseWire(e.VAA); err == nil && string(w.Body) == string(sc.Msgs[e.Msg].Body) {
				ne.VAA = resign(w, out.Msgs[e.Msg].Body, sc)
			}
		}
		out.Events = append(out.Events, ne)
	}
	return out
}

// resign rebuilds an inbound VAA over a new body keeping signer identities (keys are found by
// recovering the old signatures) and index layout.
func resign(w *vlib.WireVAA, body []byte, sc *proc.Scenario) []byte {
	oldD := vlib.Digest(w.Body)
	newD := vlib.Digest(body)
	var sigs [][]byte
	for _, s := range w.Sigs {
		a, err := vlib.Recover(oldD, s)
		sig := s
		if err == nil {
			for k := 0; k < 300; k++ {
				if vlib.Addr(vlib.Key(k)) == a {
					sig = vlib.Sign(vlib.Key(k), newD)
					break
				}
			}
		}
		sigs = append(sigs, sig)
	}
	return vlib.BuildWire(w.Version, w.SetIndex, w.SigIdx, sigs, body)
}

// normalize maps published ids to message indices so that replays with fresh ids compare equal.
func normalize(p map[string]string, sc *proc.Scenario) string {
	var ks []string
	for j, m := range sc.Msgs {
		if b, ok := p[m.ID]; ok {
			same := b == string(m.Body)
			ks = append(ks, fmt.Sprintf("m%d:body-ok=%v", j, same))
		}
	}
	for id := range p {
		found := false
		for _, m := range sc.Msgs {
			if m.ID == id {
				found = true
			}
		}
		if !found {
			ks = append(ks, "foreign:"+id)
		}
	}
	sort.Strings(ks)
	return strings.Join(ks, ",")
}

func permuteAll(n int, f func([]int)) {
	ix := make([]int, n)
	for i := range ix {
		ix[i] = i
	}
	var rec func(k int)
	rec = func(k int) {
		if k == n {
			f(append([]int{}, ix...))
			return
		}
		for i := k; i < n; i++ {
			ix[k], ix[i] = ix[i], ix[k]
			rec(k + 1)
			ix[k], ix[i] = ix[i], ix[k]
		}
	}
	rec(0)
}
