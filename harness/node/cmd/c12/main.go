// C12 - stored VAAs come back byte-exact and emitter queries never mix streams.
// Real badger store + real PublicrpcServer + real admin FindMissingMessages against a
// reference model map[id]bytes; stream answers are also compared with a second store that
// holds only that stream (isolation, differential).
package main

import (
	"bytes"
	"context"
	"encoding/hex"
	"fmt"
	"io"
	"math/rand"
	"os"
	"runtime"
	"sort"
	"sync"
	"sync/atomic"
	"time"

	"github.com/anishathalye/porcupine"

	"github.com/alephium/wormhole-fork/node/cmd/guardiand"
	"github.com/alephium/wormhole-fork/node/pkg/db"
	nodev1 "github.com/alephium/wormhole-fork/node/pkg/proto/node/v1"
	publicrpcv1 "github.com/alephium/wormhole-fork/node/pkg/proto/publicrpc/v1"
	"github.com/alephium/wormhole-fork/node/pkg/publicrpc"
	"github.com/alephium/wormhole-fork/node/pkg/vaa"
	"go.uber.org/zap"
	"google.golang.org/grpc/codes"
	"google.golang.org/grpc/status"
	"verif/harness/node/internal/proc"
	"verif/harness/node/internal/vlib"
)

var r *vlib.Run

var chains = []uint16{1, 2, 4, 10, 11, 17, 25, 42, 255, 10001}

type id struct {
	EC  uint16
	Em  vaa.Address
	TC  uint16
	Seq uint64
}

func (i id) String() string { return fmt.Sprintf("%d/%s/%d/%d", i.EC, i.Em, i.TC, i.Seq) }
func (i id) vid() vaa.VAAID {
	return vaa.VAAID{EmitterChain: vaa.ChainID(i.EC), EmitterAddress: i.Em, TargetChain: vaa.ChainID(i.TC), Sequence: i.Seq}
}

type stream struct {
	EC uint16
	Em vaa.Address
	TC uint16
}

func (s stream) String() string { return fmt.Sprintf("%d/%s/%d", s.EC, s.Em, s.TC) }

func mkVAA(rng *rand.Rand, i id) *vaa.VAA {
	v := &vaa.VAA{Version: 1, GuardianSetIndex: uint32(rng.Intn(3)), Timestamp: time.Unix(int64(1600000000+rng.Intn(1000000)), 0), Nonce: rng.Uint32(),
		Sequence: i.Seq, ConsistencyLevel: uint8(rng.Intn(256)), EmitterChain: vaa.ChainID(i.EC), TargetChain: vaa.ChainID(i.TC), EmitterAddress: i.Em,
		Payload: make([]byte, 1+rng.Intn(80))}
	rng.Read(v.Payload)
	ns := 1 + rng.Intn(4)
	for k := 0; k < ns; k++ {
		s := &vaa.Signature{Index: uint8(k)}
		rng.Read(s.Signature[:])
		v.Signatures = append(v.Signatures, s)
	}
	return v
}

// gapOracle checks a FindEmitterSequenceGap-style answer against the sequences present in ONE stream.
func gapOracle(where string, st stream, present map[uint64]bool, missing []uint64, first, last uint64, witness map[string]interface{}) {
	if len(present) == 0 {
		// An empty stream is answered as "range 0..0": sequence 0 may be listed as missing
		// (streams are taken to start at 0), but nothing of any other stream may show up.
		if last != 0 || first != 0 || len(missing) > 1 || (len(missing) == 1 && missing[0] != 0) {
			r.Violation(where+":empty-stream-reports-sequences"+prefixClass(st, witness), witness)
		}
		return
	}
	var max, min uint64
	min = ^uint64(0)
	for s := range present {
		if s > max {
			max = s
		}
		if s < min {
			min = s
		}
	}
	if last != max {
		r.Violation(where+":last!=max(present)"+prefixClass(st, witness), witness)
		return
	}
	if first > min {
		r.Violation(where+":first>min(present)", witness)
		return
	}
	rep := map[uint64]bool{}
	for _, m := range missing {
		if present[m] {
			r.Violation(where+":reports-present-sequence-as-missing", witness)
			return
		}
		if m < first || m > last {
			r.Violation(where+":reports-sequence-outside-range", witness)
			return
		}
		rep[m] = true
	}
	for s := first; s <= last; s++ {
		if !present[s] && !rep[s] {
			r.Violation(where+":absent-sequence-not-reported"+prefixClass(st, witness), witness)
			return
		}
	}
}

// prefixClass tags a witness whose store contains another stream whose decimal target chain has
// this stream's target chain as a proper prefix (the situation the property names explicitly).
func prefixClass(st stream, w map[string]interface{}) string {
	if p, ok := w["prefix_sibling_present"].(bool); ok && p {
		return ":target-chain-decimal-prefix"
	}
	return ""
}

// ---------------------------------------------------------------- lookups racing with stores

type kvIn struct {
	Put bool
	Sha string
}
type kvOut struct {
	Found bool
	Sha   string
}

func sha8(b []byte) string { return hex.EncodeToString(b[:minInt(8, len(b))]) + fmt.Sprint(len(b)) }

func minInt(a, b int) int {
	if a < b {
		return a
	}
	return b
}

// concurrentLookups: relayers poll an identifier until its VAA exists. Pollers spin on the identifier that is about
// to be stored (local lookup and public RPC) while the writer stores it. Oracle: a lookup that starts after
// StoreSignedVAA has returned finds exactly the stored bytes (the write-once-register half of linearizability, checked
// on every lookup); a bounded sample of the per-identifier histories is additionally given to porcupine.
func concurrentLookups(rng *rand.Rand, round int) {
	d, cleanup, err := proc.OpenScratchDB()
	if err != nil {
		r.InconclusiveCase("cannot open store: " + err.Error())
		return
	}
	defer cleanup()
	srv := publicrpc.NewPublicrpcServer(zap.NewNop(), d, nil, proc.GovChain, proc.GovEmitter)
	nIDs := 150
	ids := make([]id, nIDs)
	vs := make([]*vaa.VAA, nIDs)
	bs := make([][]byte, nIDs)
	em := vaa.Address{31: byte(1 + rng.Intn(200)), 0: byte(round)}
	for i := range ids {
		ids[i] = id{EC: chains[rng.Intn(len(chains))], Em: em, TC: chains[rng.Intn(len(chains))], Seq: uint64(i)}
		vs[i] = mkVAA(rng, ids[i])
		bs[i], _ = vs[i].Marshal()
	}
	t0 := time.Now()
	now := func() int64 { return int64(time.Since(t0)) + 1 }
	storeDone := make([]int64, nIDs) // atomic: logical time at which StoreSignedVAA returned (0: not yet)
	var cur int64 = 0
	var stop int32
	var hmu sync.Mutex
	hist := map[int][]porcupine.Operation{}
	record := func(i, client int, in kvIn, out kvOut, call, ret int64) {
		hmu.Lock()
		if len(hist[i]) < 40 || in.Put {
			hist[i] = append(hist[i], porcupine.Operation{ClientId: client, Input: in, Call: call, Output: out, Return: ret})
		}
		hmu.Unlock()
	}
	var wg sync.WaitGroup
	for g := 0; g < 4; g++ {
		wg.Add(1)
		go func(g int) {
			defer wg.Done()
			for atomic.LoadInt32(&stop) == 0 {
				i := int(atomic.LoadInt64(&cur))
				if g%2 == 1 && i+1 < nIDs {
					i++ // half of the pollers are one identifier ahead
				}
				doneAt := atomic.LoadInt64(&storeDone[i])
				call := now()
				var got []byte
				var gerr error
				if g < 3 {
					got, gerr = d.GetSignedVAABytes(ids[i].vid())
				} else {
					var resp *publicrpcv1.GetSignedVAAResponse
					resp, gerr = srv.GetSignedVAA(context.Background(), &publicrpcv1.GetSignedVAARequest{MessageId: &publicrpcv1.MessageID{EmitterChain: publicrpcv1.ChainID(ids[i].EC), EmitterAddress: hex.EncodeToString(ids[i].Em[:]), TargetChain: publicrpcv1.ChainID(ids[i].TC), Sequence: ids[i].Seq}})
					if gerr == nil {
						got = resp.VaaBytes
					}
				}
				ret := now()
				r.Count("concurrent_lookups", 1)
				found := gerr == nil
				if found && !bytes.Equal(got, bs[i]) {
					r.Violation("concurrent:lookup-returns-other-bytes-than-stored", map[string]interface{}{"id": ids[i].String()})
				}
				if !found && doneAt != 0 && doneAt < call {
					r.Violation("concurrent:lookup-after-acknowledged-store-reports-not-found", map[string]interface{}{"id": ids[i].String(), "path": []string{"store", "store", "store", "public-rpc"}[g], "error": fmt.Sprint(gerr),
						"store_returned_at_ns": doneAt, "lookup_called_at_ns": call})
					atomic.StoreInt32(&stop, 1)
				}
				o := kvOut{Found: found}
				if found {
					o.Sha = sha8(got)
				}
				record(i, g, kvIn{}, o, call, ret)
			}
		}(g)
	}
	for i := 0; i < nIDs && atomic.LoadInt32(&stop) == 0; i++ {
		atomic.StoreInt64(&cur, int64(i))
		for k := rng.Intn(200); k > 0; k-- { // let the pollers ask for it first
			runtime.Gosched()
		}
		call := now()
		if err := d.StoreSignedVAA(vs[i]); err != nil {
			r.InconclusiveCase("store failed: " + err.Error())
			break
		}
		ret := now()
		atomic.StoreInt64(&storeDone[i], ret)
		record(i, 9, kvIn{Put: true, Sha: sha8(bs[i])}, kvOut{}, call, ret)
		r.Count("concurrent_stores", 1)
		if got, err := d.GetSignedVAABytes(ids[i].vid()); err != nil || !bytes.Equal(got, bs[i]) {
			r.Violation("concurrent:writer-does-not-read-its-own-acknowledged-store", map[string]interface{}{"id": ids[i].String(), "error": fmt.Sprint(err)})
			break
		}
	}
	atomic.StoreInt32(&stop, 1)
	wg.Wait()
	// afterwards every identifier is found on both paths
	for i := range ids {
		if atomic.LoadInt64(&storeDone[i]) == 0 {
			continue
		}
		if got, err := d.GetSignedVAABytes(ids[i].vid()); err != nil || !bytes.Equal(got, bs[i]) {
			r.Violation("concurrent:stored-VAA-not-found-after-the-run", map[string]interface{}{"id": ids[i].String(), "error": fmt.Sprint(err)})
			break
		}
	}
	// porcupine over the recorded per-identifier histories (write-once register)
	model := porcupine.Model{
		Init: func() interface{} { return "" },
		Step: func(st, in, out interface{}) (bool, interface{}) {
			i, o := in.(kvIn), out.(kvOut)
			if i.Put {
				return true, i.Sha
			}
			if st.(string) == "" {
				return !o.Found, st
			}
			return o.Found && o.Sha == st.(string), st
		},
	}
	checked := 0
	for i, h := range hist {
		if checked >= 40 {
			break
		}
		checked++
		switch res := porcupine.CheckOperations(model, h); res {
		case true:
			r.Count("concurrent_histories_linearizable", 1)
		default:
			var ops []string
			for _, o := range h {
				ops = append(ops, fmt.Sprintf("c%d [%d,%d] %+v -> %+v", o.ClientId, o.Call, o.Return, o.Input, o.Output))
			}
			r.Violation("concurrent:lookup-history-not-linearizable", map[string]interface{}{"id": ids[i].String(), "history": ops})
		}
	}
	r.Count("concurrent_rounds", 1)
}

func main() {
	r = vlib.Start("C12", "exploration")
	rng := r.Rand("gen")
	ctx := context.Background()
	addrs := []vaa.Address{{31: 1}, {0: 0xaa, 31: 2}, {15: 0x10, 31: 0x42}, proc.GovEmitter}
	nStores := r.Pick(60, 1500)
	logger := zap.NewNop()
	devnull, _ := os.OpenFile(os.DevNull, os.O_WRONLY, 0)
	realStdout := os.Stdout
	for sn := 0; sn < nStores; sn++ {
		d, cleanup, err := proc.OpenScratchDB()
		if err != nil {
			r.Inconclusive("cannot open store: " + err.Error())
			break
		}
		model := map[id][]byte{}
		lastVAA := map[id]*vaa.VAA{}
		// the public RPC server lives as long as the store: it answers while VAAs are being stored and overwritten
		pub := publicrpc.NewPublicrpcServer(logger, d, nil, proc.GovChain, proc.GovEmitter)
		midLookup := func() {
			if len(model) == 0 {
				return
			}
			var pick id
			k := rng.Intn(len(model))
			for i := range model {
				if k == 0 {
					pick = i
					break
				}
				k--
			}
			resp, err := pub.GetSignedVAA(ctx, &publicrpcv1.GetSignedVAARequest{MessageId: &publicrpcv1.MessageID{EmitterChain: publicrpcv1.ChainID(pick.EC), EmitterAddress: hex.EncodeToString(pick.Em[:]), TargetChain: publicrpcv1.ChainID(pick.TC), Sequence: pick.Seq}})
			r.Count("lookups_between_stores", 1)
			if err != nil || !bytes.Equal(resp.VaaBytes, model[pick]) {
				r.Violation("rpc:answer-differs-from-what-is-stored-now", map[string]interface{}{"id": pick.String(), "err": fmt.Sprint(err), "store": sn, "when": "between two stores"})
			}
			if got, err := d.GetSignedVAABytes(pick.vid()); err != nil || !bytes.Equal(got, model[pick]) {
				r.Violation("db:answer-differs-from-what-is-stored-now", map[string]interface{}{"id": pick.String(), "err": fmt.Sprint(err), "store": sn, "when": "between two stores"})
			}
		}
		// focus the universe of this store so that streams collide in interesting ways
		ecs := []uint16{chains[rng.Intn(len(chains))], chains[rng.Intn(len(chains))], 1}
		tcs := []uint16{chains[rng.Intn(len(chains))], chains[rng.Intn(len(chains))], chains[rng.Intn(len(chains))]}
		switch rng.Intn(4) { // force prefix families often
		case 0:
			tcs = []uint16{2, 25, 255}
		case 1:
			tcs = []uint16{1, 10, 10001}
		case 2:
			ecs = []uint16{1, 10, 17}
		}
		ems := []vaa.Address{addrs[rng.Intn(4)], addrs[rng.Intn(4)], proc.GovEmitter}
		base := uint64(rng.Intn(30))
		n := 20 + rng.Intn(130)
		var ops []string
		for k := 0; k < n; k++ {
			i := id{EC: ecs[rng.Intn(len(ecs))], Em: ems[rng.Intn(len(ems))], TC: tcs[rng.Intn(len(tcs))], Seq: base + uint64(rng.Intn(12))}
			if rng.Intn(6) == 0 {
				i.Seq = uint64(rng.Intn(41))
			}
			v := mkVAA(rng, i)
			if prev, ok := lastVAA[i]; ok && rng.Intn(2) == 0 {
				// an overwrite with the same body and another signature set (a peer's copy with more, fewer or other
				// guardians' signatures): the identifier must afterwards return these bytes, not the earlier ones
				c := *prev
				c.GuardianSetIndex = prev.GuardianSetIndex + uint32(rng.Intn(2))
				c.Signatures = nil
				for k, ns := 0, 1+rng.Intn(5); k < ns; k++ {
					sg := &vaa.Signature{Index: uint8(k)}
					rng.Read(sg.Signature[:])
					c.Signatures = append(c.Signatures, sg)
				}
				v = &c
				r.Count("overwrites_same_body_other_signatures", 1)
			}
			lastVAA[i] = v
			if err := d.StoreSignedVAA(v); err != nil {
				r.Violation("store:error", map[string]interface{}{"id": i.String(), "err": err.Error()})
				continue
			}
			b, _ := v.Marshal()
			if _, ok := model[i]; ok {
				r.Count("overwrites", 1)
			}
			model[i] = b
			r.Count("stores", 1)
			if rng.Intn(3) == 0 {
				midLookup()
			}
			if len(ops) < 12 {
				ops = append(ops, i.String())
			}
		}
		if sn < 2 {
			r.Sample(map[string]interface{}{"store": sn, "first_ids_stored": ops, "distinct_ids": len(model)})
		}
		adm := guardiand.VerifNewPrivilegedService(d, nil, nil, nil, logger, proc.GovChain, proc.GovEmitter)

		// ---- lookups: every stored id, near misses of it, random absent ids
		lookup := func(i id) {
			want, present := model[i]
			r.Count("lookups", 1)
			got, err := d.GetSignedVAABytes(i.vid())
			switch {
			case present && (err != nil || !bytes.Equal(got, want)):
				r.Violation("lookup:stored-id-not-returned-byte-exact", map[string]interface{}{"id": i.String(), "err": fmt.Sprint(err)})
			case !present && err == nil:
				r.Violation("lookup:absent-id-returns-bytes", map[string]interface{}{"id": i.String(), "got": vlib.Hex(got)})
			case !present && err != db.ErrVAANotFound:
				r.Violation("lookup:absent-id-error-not-notfound", map[string]interface{}{"id": i.String(), "err": fmt.Sprint(err)})
			}
			resp, err := pub.GetSignedVAA(ctx, &publicrpcv1.GetSignedVAARequest{MessageId: &publicrpcv1.MessageID{
				EmitterChain: publicrpcv1.ChainID(i.EC), EmitterAddress: hex.EncodeToString(i.Em[:]), TargetChain: publicrpcv1.ChainID(i.TC), Sequence: i.Seq}})
			switch {
			case present && (err != nil || !bytes.Equal(resp.VaaBytes, want)):
				r.Violation("rpc:stored-id-not-returned-byte-exact", map[string]interface{}{"id": i.String(), "err": fmt.Sprint(err)})
			case !present && err == nil:
				r.Violation("rpc:absent-id-returns-bytes", map[string]interface{}{"id": i.String()})
			case !present && status.Code(err) != codes.NotFound:
				r.Violation("rpc:absent-id-error-not-notfound", map[string]interface{}{"id": i.String(), "err": fmt.Sprint(err)})
			}
		}
		// identifiers whose chain ids do not fit 16 bits name no stored VAA
		wide := func(i id) {
			for _, q := range []struct{ ec, tc uint32 }{{uint32(i.EC) + 65536, uint32(i.TC)}, {uint32(i.EC), uint32(i.TC) + 65536}, {uint32(i.EC) + 131072, uint32(i.TC) + 65536}} {
				r.Count("lookups", 1)
				resp, err := pub.GetSignedVAA(ctx, &publicrpcv1.GetSignedVAARequest{MessageId: &publicrpcv1.MessageID{
					EmitterChain: publicrpcv1.ChainID(q.ec), EmitterAddress: hex.EncodeToString(i.Em[:]), TargetChain: publicrpcv1.ChainID(q.tc), Sequence: i.Seq}})
				if err == nil && resp != nil && len(resp.VaaBytes) > 0 {
					r.Violation("rpc:chain-id-above-65535-returns-a-stored-VAA", map[string]interface{}{"stored_id": i.String(), "asked_emitter_chain": q.ec, "asked_target_chain": q.tc})
				}
				bresp, err := pub.GetNonGovernanceVAABatch(ctx, &publicrpcv1.GetNonGovernanceVAABatchRequest{EmitterChain: publicrpcv1.ChainID(q.ec), EmitterAddress: hex.EncodeToString(i.Em[:]), TargetChain: publicrpcv1.ChainID(q.tc), Sequences: []uint64{i.Seq}})
				if err == nil && bresp != nil && len(bresp.Entries) > 0 {
					r.Violation("batch:chain-id-above-65535-returns-a-stored-VAA", map[string]interface{}{"stored_id": i.String(), "asked_emitter_chain": q.ec, "asked_target_chain": q.tc})
				}
				os.Stdout = devnull
				aresp, err := adm.FindMissingMessages(ctx, &nodev1.FindMissingMessagesRequest{EmitterChain: q.ec, TargetChain: q.tc, EmitterAddress: hex.EncodeToString(i.Em[:])})
				os.Stdout = realStdout
				if err == nil && aresp != nil && (aresp.LastSequence != 0 || len(aresp.MissingMessages) > 1) {
					r.Violation("admin:chain-id-above-65535-scans-another-stream", map[string]interface{}{"stored_id": i.String(), "asked_emitter_chain": q.ec, "asked_target_chain": q.tc, "last": aresp.LastSequence})
				}
			}
		}
		streams := map[stream]map[uint64]bool{}
		nWide := 0
		for i := range model {
			lookup(i)
			if nWide < 5 {
				nWide++
				wide(i)
			}
			st := stream{i.EC, i.Em, i.TC}
			if streams[st] == nil {
				streams[st] = map[uint64]bool{}
			}
			streams[st][i.Seq] = true
			// near misses
			for _, c := range chains {
				lookup(id{c, i.Em, i.TC, i.Seq})
				lookup(id{i.EC, i.Em, c, i.Seq})
			}
			lookup(id{i.EC, i.Em, i.TC, i.Seq*10 + 1})
			lookup(id{i.EC, i.Em, i.TC, i.Seq / 10})
			lookup(id{i.EC, addrs[rng.Intn(4)], i.TC, i.Seq})
		}
		// streams to query: all present ones plus empty neighbours
		query := map[stream]bool{}
		for st := range streams {
			query[st] = true
			for _, c := range chains {
				query[stream{st.EC, st.Em, c}] = true
				query[stream{c, st.Em, st.TC}] = true
			}
		}
		var qs []stream
		for st := range query {
			qs = append(qs, st)
		}
		sort.Slice(qs, func(a, b int) bool { return qs[a].String() < qs[b].String() })
		isoBudget := 6
		for _, st := range qs {
			present := streams[st]
			// is there a sibling stream (same emitter) whose target chain's decimal form extends ours?
			sib := false
			for o := range streams {
				if o.EC == st.EC && o.Em == st.Em && o.TC != st.TC && len(fmt.Sprint(o.TC)) > len(fmt.Sprint(st.TC)) && fmt.Sprint(o.TC)[:len(fmt.Sprint(st.TC))] == fmt.Sprint(st.TC) {
					sib = true
				}
			}
			var pl []uint64
			for s := range present {
				pl = append(pl, s)
			}
			sort.Slice(pl, func(a, b int) bool { return pl[a] < pl[b] })
			os.Stdout = devnull // the gap scan prints "missing: n" lines on stdout
			missing, first, last, err := d.FindEmitterSequenceGap(vaa.VAAID{EmitterChain: vaa.ChainID(st.EC), EmitterAddress: st.Em, TargetChain: vaa.ChainID(st.TC)})
			os.Stdout = realStdout
			r.Count("gap_queries", 1)
			w := map[string]interface{}{"stream": st.String(), "present": pl, "missing": missing, "first": first, "last": last, "prefix_sibling_present": sib, "store": sn}
			if err != nil {
				r.Violation("gap:error", w)
			} else {
				gapOracle("gap", st, present, missing, first, last, w)
			}
			if len(present) > 0 {
				r.Distinct("streams", fmt.Sprintf("%s#%v", st, pl))
			}
			// admin FindMissingMessages
			os.Stdout = devnull
			resp, err := adm.FindMissingMessages(ctx, &nodev1.FindMissingMessagesRequest{EmitterChain: uint32(st.EC), TargetChain: uint32(st.TC), EmitterAddress: hex.EncodeToString(st.Em[:])})
			os.Stdout = realStdout
			r.Count("admin_queries", 1)
			if err != nil {
				r.Violation("admin:error", w)
			} else {
				var ms []uint64
				okfmt := true
				for _, m := range resp.MissingMessages {
					vid, e := vaa.VaaIDFromString(m)
					if e != nil || uint16(vid.EmitterChain) != st.EC || vid.EmitterAddress != st.Em || uint16(vid.TargetChain) != st.TC {
						okfmt = false
						break
					}
					ms = append(ms, vid.Sequence)
				}
				wa := map[string]interface{}{"stream": st.String(), "present": pl, "missing": resp.MissingMessages, "first": resp.FirstSequence, "last": resp.LastSequence, "prefix_sibling_present": sib, "store": sn}
				if !okfmt {
					r.Violation("admin:missing-id-of-other-stream", wa)
				} else {
					gapOracle("admin", st, present, ms, resp.FirstSequence, resp.LastSequence, wa)
				}
			}
			// isolation, differentially: a second store with only this stream
			if len(present) > 0 && isoBudget > 0 && err == nil {
				isoBudget--
				d2, cl2, e2 := proc.OpenScratchDB()
				if e2 == nil {
					for i, b := range model {
						if (stream{i.EC, i.Em, i.TC}) == st {
							v, _ := vaa.Unmarshal(b)
							_ = d2.StoreSignedVAA(v)
						}
					}
					os.Stdout = devnull
					m2, f2, l2, e3 := d2.FindEmitterSequenceGap(vaa.VAAID{EmitterChain: vaa.ChainID(st.EC), EmitterAddress: st.Em, TargetChain: vaa.ChainID(st.TC)})
					os.Stdout = realStdout
					r.Count("isolation_comparisons", 1)
					if e3 != nil || f2 != first || l2 != last || fmt.Sprint(m2) != fmt.Sprint(missing) {
						w["isolated_missing"], w["isolated_first"], w["isolated_last"] = m2, f2, l2
						r.Violation("gap:answer-differs-from-isolated-store"+prefixClass(st, w), w)
					}
					cl2()
				}
			}
			// non-governance batch
			var seqs []uint64
			for k := 0; k < 20; k++ {
				seqs = append(seqs, base+uint64(rng.Intn(14)))
			}
			bresp, err := pub.GetNonGovernanceVAABatch(ctx, &publicrpcv1.GetNonGovernanceVAABatchRequest{EmitterChain: publicrpcv1.ChainID(st.EC), EmitterAddress: hex.EncodeToString(st.Em[:]), TargetChain: publicrpcv1.ChainID(st.TC), Sequences: seqs})
			r.Count("batch_queries", 1)
			if err != nil {
				r.Violation("batch:error", map[string]interface{}{"stream": st.String(), "err": err.Error()})
			} else {
				var want []string
				for _, s := range seqs {
					if b, ok := model[id{st.EC, st.Em, st.TC, s}]; ok {
						want = append(want, fmt.Sprintf("%d:%x", s, b))
					}
				}
				var got []string
				for _, e := range bresp.Entries {
					got = append(got, fmt.Sprintf("%d:%x", e.Sequence, e.VaaBytes))
				}
				if fmt.Sprint(got) != fmt.Sprint(want) {
					r.Violation("batch:entries-differ-from-stream-content", map[string]interface{}{"stream": st.String(), "sequences": seqs, "got_n": len(got), "want_n": len(want)})
				}
			}
		}
		// governance batch
		for k := 0; k < 4; k++ {
			var seqs []uint64
			for j := 0; j < 1+rng.Intn(20); j++ {
				seqs = append(seqs, base+uint64(rng.Intn(14)))
			}
			in := map[uint64]bool{}
			for _, s := range seqs {
				in[s] = true
			}
			gresp, err := pub.GetGovernanceVAABatch(ctx, &publicrpcv1.GetGovernanceVAABatchRequest{Sequences: seqs})
			r.Count("gov_batch_queries", 1)
			if err != nil {
				r.Violation("govbatch:error", map[string]interface{}{"err": err.Error()})
				continue
			}
			var want, got []string
			for i, b := range model {
				if i.EC == uint16(proc.GovChain) && i.Em == proc.GovEmitter && in[i.Seq] {
					want = append(want, fmt.Sprintf("%d/%d:%x", i.TC, i.Seq, b))
				}
			}
			for _, e := range gresp.Entries {
				got = append(got, fmt.Sprintf("%d/%d:%x", uint16(e.TargetChain), e.Sequence, e.VaaBytes))
			}
			sort.Strings(want)
			sort.Strings(got)
			if fmt.Sprint(got) != fmt.Sprint(want) {
				r.Violation("govbatch:entries-differ-from-governance-stream", map[string]interface{}{"sequences": seqs, "got_n": len(got), "want_n": len(want), "store": sn})
			}
		}
		cleanup()
	}
	_ = io.Discard
	for round := 0; round < r.Pick(6, 120); round++ {
		concurrentLookups(rng, round)
	}
	if r.GetCount("concurrent_lookups") == 0 {
		r.Inconclusive("no lookup ever ran concurrently with a store")
	}
	r.Count("evaluations", r.GetCount("concurrent_stores"))
	r.Count("evaluations", r.GetCount("lookups")+r.GetCount("gap_queries")+r.GetCount("admin_queries")+r.GetCount("batch_queries")+r.GetCount("gov_batch_queries"))
	r.Assume("sequence windows are small (0..41): the gap scan is linear in the last sequence", "payloads are non-empty (the gap scan decodes every VAA of the stream)")
	r.Finish("evaluations", "streams", "random multisets of VAAs over emitter/target chains {1,2,4,10,11,17,25,42,255,10001} (prefix families forced in half of the stores), 4 emitters incl. the governance emitter, overlapping sequence windows, overwrites; every stored id, its near misses and all neighbouring streams are queried through the store, the public RPC server and the admin service; then 4 pollers (store and public RPC) spin on the identifier about to be stored while a writer stores 150 VAAs per round: a lookup that starts after the store returned must find the exact bytes, sampled per-identifier histories checked with porcupine; distinct non-trivial = distinct (stream, present-sequence set) pairs queried", 50)
}
