// C04 - the signing digest is a deterministic, injective function of the message.
// Real vaa.SerializeBody/SigningMsg/Marshal and the real processor (Run loop, two nodes with
// different keys and set indices) are observed against (a) the layout of the specification,
// (b) Messages.sol parseVM and (c) governance.ral parseAndVerifyVAA, both interpreted from the
// sources in the working tree.
package main

import (
	"bytes"
	"fmt"
	"math/rand"
	"os"
	"sync"
	"sync/atomic"
	"time"

	"github.com/alephium/wormhole-fork/node/pkg/common"
	"github.com/alephium/wormhole-fork/node/pkg/vaa"
	ethcommon "github.com/ethereum/go-ethereum/common"
	"verif/harness/node/internal/csrc"
	"verif/harness/node/internal/proc"
	"verif/harness/node/internal/vlib"
)

type fields struct {
	Version uint8
	SetIdx  uint32
	NSig    int
	Sec     uint32
	Nanos   int
	Nonce   uint32
	EC, TC  uint16
	Em      [32]byte
	Seq     uint64
	CL      uint8
	Payload []byte
}

func (f fields) vaa() *vaa.VAA {
	v := &vaa.VAA{Version: f.Version, GuardianSetIndex: f.SetIdx, Timestamp: time.Unix(int64(f.Sec), int64(f.Nanos)),
		Nonce: f.Nonce, Sequence: f.Seq, ConsistencyLevel: f.CL, EmitterChain: vaa.ChainID(f.EC), TargetChain: vaa.ChainID(f.TC),
		EmitterAddress: vaa.Address(f.Em), Payload: f.Payload}
	for i := 0; i < f.NSig; i++ {
		s := &vaa.Signature{Index: uint8(i)}
		for j := range s.Signature {
			s.Signature[j] = byte(i*7 + j)
		}
		v.Signatures = append(v.Signatures, s)
	}
	return v
}

func (f fields) summary() map[string]interface{} {
	return map[string]interface{}{"version": f.Version, "set": f.SetIdx, "nsig": f.NSig, "sec": f.Sec, "nanos": f.Nanos, "nonce": f.Nonce,
		"emitter_chain": f.EC, "target_chain": f.TC, "emitter": fmt.Sprintf("%x", f.Em), "seq": f.Seq, "cl": f.CL, "payload_len": len(f.Payload), "payload_head": vlib.Hex(head(f.Payload, 16))}
}

func head(b []byte, n int) []byte {
	if len(b) > n {
		return b[:n]
	}
	return b
}

var (
	u32b = []uint32{0, 1, 0x7fffffff, 0x80000000, 0xfffffffe, 0xffffffff}
	u16b = []uint16{0, 1, 2, 255, 256, 0x7fff, 0x8000, 0xfffe, 0xffff}
	u64b = []uint64{0, 1, 0xffffffff, 0x100000000, 0x7fffffffffffffff, 0x8000000000000000, 0xfffffffffffffffe, 0xffffffffffffffff}
	u8b  = []uint8{0, 1, 127, 128, 254, 255}
	plen = []int{0, 1, 31, 32, 33, 999, 1000, 1001, 1024, 4096, 65535}
	nanb = []int{0, 1, 500000000, 999999999}
)

func gen(rng *rand.Rand, boundary bool) fields {
	var f fields
	pick32 := func() uint32 {
		if boundary || rng.Intn(4) == 0 {
			return u32b[rng.Intn(len(u32b))]
		}
		return rng.Uint32()
	}
	pick16 := func() uint16 {
		if boundary || rng.Intn(4) == 0 {
			return u16b[rng.Intn(len(u16b))]
		}
		return uint16(rng.Uint32())
	}
	f.Version = 1
	f.SetIdx = pick32()
	f.NSig = []int{0, 1, 2, 13, 19}[rng.Intn(5)]
	f.Sec = pick32()
	f.Nanos = nanb[rng.Intn(len(nanb))]
	if !boundary && rng.Intn(2) == 0 {
		f.Nanos = rng.Intn(1000000000)
	}
	f.Nonce = pick32()
	f.EC, f.TC = pick16(), pick16()
	switch rng.Intn(4) {
	case 0:
	case 1:
		for i := range f.Em {
			f.Em[i] = 0xff
		}
	default:
		rng.Read(f.Em[:])
	}
	if boundary || rng.Intn(4) == 0 {
		f.Seq = u64b[rng.Intn(len(u64b))]
		f.CL = u8b[rng.Intn(len(u8b))]
	} else {
		f.Seq = rng.Uint64()
		f.CL = uint8(rng.Intn(256))
	}
	n := plen[rng.Intn(len(plen))]
	if !boundary && rng.Intn(2) == 0 {
		n = rng.Intn(300)
	}
	f.Payload = make([]byte, n)
	rng.Read(f.Payload)
	return f
}

func main() {
	r := vlib.Start("C04", "exploration")
	rng := r.Rand("gen")

	solBody, err := csrc.SolFunctionBody(vlib.Repo()+"/ethereum/contracts/Messages.sol", "parseVM")
	if err != nil {
		r.Inconclusive("Messages.sol parseVM: " + err.Error())
	}
	ral, err := csrc.LoadRalph(vlib.Repo() + "/alephium/contracts/governance.ral")
	if err != nil || !ral.HasFunc("parseAndVerifyVAA") {
		r.Inconclusive(fmt.Sprintf("governance.ral parseAndVerifyVAA not loadable: %v", err))
		ral = nil
	}

	check := func(f fields) {
		r.Count("vaas", 1)
		v := f.vaa()
		ref := vlib.BuildBody(f.Sec, f.Nonce, f.EC, f.TC, f.Em, f.Seq, f.CL, f.Payload)
		body := v.SerializeBody()
		if !bytes.Equal(body, ref) {
			r.Violation("go:body-layout", map[string]interface{}{"fields": f.summary(), "got": vlib.Hex(body), "want": vlib.Hex(ref)})
			return
		}
		want := vlib.Digest(ref)
		got := v.SigningMsg()
		if !bytes.Equal(got.Bytes(), want) {
			r.Violation("go:digest!=keccak(keccak(body))", map[string]interface{}{"fields": f.summary(), "got": got.Hex(), "want": vlib.Hex(want)})
		}
		r.Distinct("bodies", string(want))
		r.Distinct("payload_len", fmt.Sprint(len(f.Payload)))
		wire, err := v.Marshal()
		if err != nil {
			r.Violation("go:marshal-error", f.summary())
			return
		}
		// (b) Solidity parseVM from source
		if solBody != "" {
			vm, revert, err := csrc.SolParseVM(solBody, wire)
			if os.Getenv("C04_FORCE_GENERAL") != "" { // self-test of the general interpreter on whatever source is there
				err = fmt.Errorf("forced")
			}
			if err != nil { // a rewritten parseVM: try the general typed interpreter before giving up
				if vm2, rv2, err2 := csrc.SolParseVM2(solBody, wire); err2 == nil {
					vm, revert, err = vm2, rv2, nil
					r.Count("solidity_parses_by_the_general_interpreter", 1)
				} else {
					err = fmt.Errorf("%v; general interpreter: %v", err, err2)
				}
			}
			switch {
			case err != nil:
				r.Inconclusive("parseVM interpreter: " + err.Error())
				solBody = ""
			case revert:
				r.Violation("sol:parseVM-reverts-on-go-encoding", f.summary())
			default:
				r.Count("solidity_parses", 1)
				bad := ""
				chk := func(name string, got, want uint64) {
					if got != want && bad == "" {
						bad = fmt.Sprintf("%s got %d want %d", name, got, want)
					}
				}
				chk("version", vm.Fields["version"], uint64(f.Version))
				chk("guardianSetIndex", vm.Fields["guardianSetIndex"], uint64(f.SetIdx))
				chk("timestamp", vm.Fields["timestamp"], uint64(f.Sec))
				chk("nonce", vm.Fields["nonce"], uint64(f.Nonce))
				chk("emitterChainId", vm.Fields["emitterChainId"], uint64(f.EC))
				chk("targetChainId", vm.Fields["targetChainId"], uint64(f.TC))
				chk("sequence", vm.Fields["sequence"], f.Seq)
				chk("consistencyLevel", vm.Fields["consistencyLevel"], uint64(f.CL))
				chk("signatures", uint64(len(vm.Sigs)), uint64(f.NSig))
				if bad == "" && !bytes.Equal(vm.Bytes32["emitterAddress"], f.Em[:]) {
					bad = "emitterAddress"
				}
				if bad == "" && !bytes.Equal(vm.Payload, f.Payload) {
					bad = fmt.Sprintf("payload len got %d want %d", len(vm.Payload), len(f.Payload))
				}
				if bad == "" && (!bytes.Equal(vm.Body, ref) || !vm.HashBody) {
					bad = "hashed body"
				}
				for i := 0; bad == "" && i < len(vm.Sigs); i++ {
					s := v.Signatures[i]
					if vm.Sigs[i]["guardianIndex"][0] != s.Index || !bytes.Equal(vm.Sigs[i]["r"], s.Signature[:32]) || !bytes.Equal(vm.Sigs[i]["s"], s.Signature[32:64]) || vm.Sigs[i]["v"][0] != s.Signature[64]+27 {
						bad = fmt.Sprintf("signature %d", i)
					}
				}
				if bad != "" {
					r.Violation("sol:parseVM-disagrees:"+firstWord(bad), map[string]interface{}{"fields": f.summary(), "diff": bad})
				}
			}
		}
		// (c) Ralph parseAndVerifyVAA from source
		if ral != nil && f.NSig == 0 {
			r.Count("ralph_skipped_unsigned_vaa", 1) // the contract rejects it before it hashes anything (quorum >= 1)
		}
		if ral != nil && f.NSig >= 1 {
			env := csrc.Env{"data": csrc.Bytes(wire), "isGovernanceVAA": csrc.Bool(false)}
			if f.NSig >= 1 {
				// the contract reads the guardian set from its state (getGuardiansInfo: one size byte, then the keys): any
				// set size G for which the VAA's k signatures are a quorum, floor(2G/3)+1 <= k <= G
				lo, hi := int(f.NSig), int(f.NSig)
				for hi+1 <= 255 && (2*(hi+1))/3+1 <= int(f.NSig) {
					hi++
				}
				g := lo + rng.Intn(hi-lo+1)
				env["guardians"] = csrc.Bytes(append([]byte{byte(g)}, make([]byte, 20*g)...))
				r.Count(fmt.Sprintf("ralph_runs_with_set_size_%s_quorum", map[bool]string{true: "above", false: "at"}[int(f.NSig) > (2*g)/3+1]), 1)
			}
			res, err := ral.Run("parseAndVerifyVAA", env)
			switch {
			case err != nil:
				r.Inconclusive("ralph interpreter: " + err.Error())
				ral = nil
			case res.Aborted:
				r.Violation("ralph:parseAndVerifyVAA-aborts-on-go-encoding", map[string]interface{}{"fields": f.summary(), "reason": res.AbortReason})
			case len(res.Returned) != 5:
				r.Inconclusive(fmt.Sprintf("ralph parseAndVerifyVAA returned %d values", len(res.Returned)))
				ral = nil
			default:
				r.Count("ralph_parses", 1)
				bad := ""
				wantInts := map[int]uint64{0: uint64(f.EC), 1: uint64(f.TC), 3: f.Seq}
				names := []string{"emitterChainId", "targetChainId", "emitterAddress", "sequence", "payload"}
				for i, rv := range res.Returned {
					switch i {
					case 0, 1, 3:
						if rv.K != csrc.KInt {
							r.Inconclusive("ralph return " + names[i] + " not evaluable")
							ral = nil
						} else if !rv.I.IsUint64() || rv.I.Uint64() != wantInts[i] {
							bad = names[i]
						}
					case 2:
						if rv.K != csrc.KBytes {
							r.Inconclusive("ralph return emitterAddress not evaluable")
							ral = nil
						} else if !bytes.Equal(rv.B, f.Em[:]) {
							bad = names[i]
						}
					case 4:
						if rv.K != csrc.KBytes {
							r.Inconclusive("ralph return payload not evaluable")
							ral = nil
						} else if !bytes.Equal(rv.B, f.Payload) {
							bad = names[i]
						}
					}
				}
				if b := res.Env["body"]; b.K != csrc.KBytes {
					r.Inconclusive("ralph body not evaluable")
					ral = nil
				} else if !bytes.Equal(b.B, ref) {
					bad = "body"
				}
				if h := res.Env["hash"]; h.K != csrc.KBytes {
					r.Inconclusive("ralph hash not evaluable")
					ral = nil
				} else if !bytes.Equal(h.B, want) {
					bad = "hash"
				}
				if g := res.Env["guardianSetIndex"]; g.K == csrc.KInt && g.I.Uint64() != uint64(f.SetIdx) {
					bad = "guardianSetIndex"
				}
				if g := res.Env["signatureSize"]; g.K == csrc.KInt && g.I.Uint64() != uint64(f.NSig) {
					bad = "signatureSize"
				}
				if bad != "" {
					r.Violation("ralph:parseAndVerifyVAA-disagrees:"+bad, map[string]interface{}{"fields": f.summary(), "diff": bad})
				}
			}
		}
		// (c') invariance
		for name, g := range map[string]fields{
			"version":  func() fields { x := f; x.Version = f.Version + 1; return x }(),
			"setindex": func() fields { x := f; x.SetIdx = f.SetIdx + 1; return x }(),
			"sigs":     func() fields { x := f; x.NSig = (f.NSig + 1) % 20; return x }(),
			"nanos":    func() fields { x := f; x.Nanos = (f.Nanos + 123456789) % 1000000000; return x }(),
		} {
			r.Count("invariance_checks", 1)
			if d := g.vaa().SigningMsg(); !bytes.Equal(d.Bytes(), want) {
				r.Violation("go:digest-depends-on-"+name, map[string]interface{}{"fields": f.summary()})
			}
		}
		// (d) every single-field change changes the signing body
		muts := map[string]fields{
			"timestamp":      func() fields { x := f; x.Sec = f.Sec ^ 1; return x }(),
			"timestamp_hi":   func() fields { x := f; x.Sec = f.Sec ^ 0x80000000; return x }(),
			"nonce":          func() fields { x := f; x.Nonce = f.Nonce ^ 0x01000000; return x }(),
			"emitter_chain":  func() fields { x := f; x.EC = f.EC ^ 0x100; return x }(),
			"target_chain":   func() fields { x := f; x.TC = f.TC ^ 0x100; return x }(),
			"emitter":        func() fields { x := f; x.Em[rng.Intn(32)] ^= 0x10; return x }(),
			"sequence":       func() fields { x := f; x.Seq = f.Seq ^ (1 << uint(rng.Intn(64))); return x }(),
			"consistency":    func() fields { x := f; x.CL = f.CL ^ 0x80; return x }(),
			"payload_append": func() fields { x := f; x.Payload = append(append([]byte{}, f.Payload...), 0); return x }(),
		}
		if len(f.Payload) > 0 {
			x := f
			x.Payload = append([]byte{}, f.Payload...)
			x.Payload[rng.Intn(len(x.Payload))] ^= 1
			muts["payload_flip"] = x
			y := f
			y.Payload = f.Payload[:len(f.Payload)-1]
			muts["payload_trunc"] = y
		}
		for name, g := range muts {
			r.Count("injectivity_checks", 1)
			if bytes.Equal(g.vaa().SerializeBody(), body) {
				r.Violation("go:body-ignores-"+name, map[string]interface{}{"fields": f.summary()})
			}
		}
		// swapping emitter/target chain must matter when they differ
		if f.EC != f.TC {
			x := f
			x.EC, x.TC = f.TC, f.EC
			if bytes.Equal(x.vaa().SerializeBody(), body) {
				r.Violation("go:body-ignores-chain-order", f.summary())
			}
		}
	}

	nb := r.Pick(3000, 60000)
	nr := r.Pick(20000, 1000000)
	for i := 0; i < nb; i++ {
		f := gen(rng, true)
		if i < 2 {
			r.Sample(f.summary())
		}
		check(f)
	}
	for i := 0; i < nr; i++ {
		f := gen(rng, false)
		if i < 1 {
			r.Sample(f.summary())
		}
		check(f)
	}

	// (d') the digest does not depend on who else is computing one at the same time: the processor, the admin service, the
	// notifier and the explorer all call SigningMsg from their own goroutines. Eight goroutines hash their own VAAs
	// concurrently and compare with the harness' digest (shared hashing state shows as wrong digests or as a computation that never ends).
	{
		var wg sync.WaitGroup
		var bad, total int64
		per := r.Pick(4000, 100000)
		done := make(chan struct{})
		for g := 0; g < 8; g++ {
			wg.Add(1)
			go func(g int) {
				defer wg.Done()
				lr := rand.New(rand.NewSource(r.Seed*131 + int64(g)))
				for i := 0; i < per; i++ {
					f := gen(lr, i%3 == 0)
					want := vlib.Digest(vlib.BuildBody(f.Sec, f.Nonce, f.EC, f.TC, f.Em, f.Seq, f.CL, f.Payload))
					got := f.vaa().SigningMsg()
					atomic.AddInt64(&total, 1)
					if !bytes.Equal(got.Bytes(), want) {
						if atomic.AddInt64(&bad, 1) == 1 {
							r.Violation("go:digest-differs-when-computed-concurrently", map[string]interface{}{"fields": f.summary(), "got": got.Hex(), "want": vlib.Hex(want), "goroutine": g})
						}
					}
				}
			}(g)
		}
		go func() { wg.Wait(); close(done) }()
		select {
		case <-done:
		case <-time.After(5 * time.Minute):
			r.Violation("go:concurrent-digest-computation-does-not-terminate", map[string]interface{}{"computed_so_far": atomic.LoadInt64(&total)})
		}
		r.Count("concurrent_digests", atomic.LoadInt64(&total))
	}

	// (e) two real processors (Run loop) with different keys / current set indices sign the harness' digest
	nodeA, errA := proc.New(proc.Options{Key: vlib.Key(1), Run: true})
	nodeB, errB := proc.New(proc.Options{Key: vlib.Key(2), Run: true})
	if errA != nil || errB != nil {
		r.Inconclusive(fmt.Sprintf("cannot start processors: %v %v", errA, errB))
	} else {
		keysA := []ethcommon.Address{vlib.Addr(vlib.Key(1)), vlib.Addr(vlib.Key(3)), vlib.Addr(vlib.Key(4)), vlib.Addr(vlib.Key(5))}
		keysB := []ethcommon.Address{vlib.Addr(vlib.Key(6)), vlib.Addr(vlib.Key(2)), vlib.Addr(vlib.Key(7)), vlib.Addr(vlib.Key(8))}
		nodeA.SetC <- &common.GuardianSet{Keys: keysA, Index: 0}
		nodeB.SetC <- &common.GuardianSet{Keys: keysB, Index: 7}
		np := r.Pick(300, 5000)
		for i := 0; i < np; i++ {
			f := gen(rng, i%2 == 0)
			f.Seq = uint64(i) // unique ids
			if f.EC == uint16(proc.GovChain) && f.Em == [32]byte(proc.GovEmitter) {
				continue
			}
			ref := vlib.BuildBody(f.Sec, f.Nonce, f.EC, f.TC, f.Em, f.Seq, f.CL, f.Payload)
			want := vlib.Digest(ref)
			// Guardians differ in what their local store already holds: for part of the messages node B holds a
			// quorum VAA for the same message id from an observation with another timestamp (reorganised block,
			// a peer's copy) that is still inside the settlement window, or one with a different payload. What B
			// signs must still be the digest of the message alone.
			prior := ""
			if i%4 == 1 || i%4 == 2 {
				d := int64(1 + rng.Intn(29)) // 30 s plus a sub-second part is already outside the settlement window
				psec, ppay := int64(f.Sec), f.Payload
				switch rng.Intn(4) {
				case 0:
					prior = "earlier-within-settlement"
					psec -= d
				case 1:
					prior = "later"
					psec += int64(1 + rng.Intn(100000))
				case 2:
					prior = "same-second-other-payload"
					ppay = append([]byte{0x5a}, f.Payload...)
				default:
					prior = "earlier-1s"
					psec--
				}
				if psec < 0 || psec > 0xffffffff {
					prior = ""
				} else {
					pv := &vaa.VAA{Version: 1, GuardianSetIndex: 7, Timestamp: time.Unix(psec, 0), Nonce: f.Nonce ^ 1, Sequence: f.Seq, ConsistencyLevel: f.CL,
						EmitterChain: vaa.ChainID(f.EC), TargetChain: vaa.ChainID(f.TC), EmitterAddress: vaa.Address(f.Em), Payload: ppay}
					pd := pv.SigningMsg()
					for gi, k := range []int{6, 2, 7} {
						sg := &vaa.Signature{Index: uint8(gi)}
						copy(sg.Signature[:], vlib.Sign(vlib.Key(k), pd.Bytes()))
						pv.Signatures = append(pv.Signatures, sg)
					}
					if err := nodeB.DB.StoreSignedVAA(pv); err != nil {
						prior = ""
					} else {
						r.Count("processor_prior_store_"+prior, 1)
					}
				}
			}
			for ni, n := range []*proc.Rig{nodeA, nodeB} {
				mp := &common.MessagePublication{TxHash: ethcommon.Hash{byte(i)}, Timestamp: time.Unix(int64(f.Sec), int64(f.Nanos)), Nonce: f.Nonce, Sequence: f.Seq,
					ConsistencyLevel: f.CL, EmitterChain: vaa.ChainID(f.EC), TargetChain: vaa.ChainID(f.TC), EmitterAddress: vaa.Address(f.Em), Payload: f.Payload}
				select {
				case n.LockC <- mp:
				case <-time.After(20 * time.Second):
					r.InconclusiveCase("processor did not accept message within 20s")
					continue
				}
				id := (&vaa.VAA{EmitterChain: mp.EmitterChain, EmitterAddress: mp.EmitterAddress, TargetChain: mp.TargetChain, Sequence: mp.Sequence}).MessageID()
				found := false
				deadline := time.After(20 * time.Second)
				for !found {
					select {
					case raw := <-n.SendC:
						n.SendC <- raw // put back for DrainSend decoding
						for _, o := range n.DrainSend() {
							if o.Kind == "obs" && o.Obs.MessageId == id {
								found = true
								r.Count("processor_observations", 1)
								if !bytes.Equal(o.Obs.Hash, want) {
									cls := "processor:signed-hash!=spec-digest"
									if ni == 1 && prior != "" {
										cls = "processor:signed-hash-depends-on-local-store:" + prior
									}
									r.Violation(cls, map[string]interface{}{"node": ni, "prior_store": prior, "fields": f.summary(), "got": vlib.Hex(o.Obs.Hash), "want": vlib.Hex(want)})
								}
								if a, err := vlib.Recover(o.Obs.Hash, o.Obs.Signature); err != nil || a != vlib.Addr(vlib.Key(ni+1)) {
									r.Violation("processor:observation-not-signed-by-node-key", map[string]interface{}{"node": ni, "fields": f.summary()})
								}
							}
						}
					case <-deadline:
						r.InconclusiveCase("no SignedObservation for " + id + " within 20s")
						found = true
					}
				}
			}
		}
		nodeA.Close()
		nodeB.Close()
	}
	r.Count("evaluations", r.GetCount("vaas")+r.GetCount("processor_observations"))
	r.Assume("contract-side layout is the harness' interpretation of the parseVM / parseAndVerifyVAA source text, not an EVM / Alephium VM execution",
		"timestamps are generated inside the 32-bit whole-second range the property states")
	if r.GetCount("solidity_parses") == 0 || r.GetCount("ralph_parses") == 0 {
		r.Inconclusive("a contract-side reference parser never ran")
	}
	r.Finish("evaluations", "bodies", "boundary-table VAAs (0/1/max-1/max per field, payload lengths 0..65535) plus random VAAs; each is serialized by the real code and parsed back by the spec layout, the Solidity script and the Ralph function; non-trivial = distinct signing bodies", 1000)
}

func firstWord(s string) string {
	for i, c := range s {
		if c == ' ' {
			return s[:i]
		}
	}
	return s
}
