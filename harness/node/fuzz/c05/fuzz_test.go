// Coverage-guided monitor for C05: the oracle lives in the fuzz target.
package c05

import (
	"bytes"
	"encoding/binary"
	"testing"
	"time"

	"github.com/alephium/wormhole-fork/node/pkg/vaa"
)

func seedVAA(nsig, plen int) []byte {
	v := &vaa.VAA{Version: 1, GuardianSetIndex: 3, Timestamp: time.Unix(1700000000, 0), Nonce: 7, Sequence: 9, ConsistencyLevel: 1,
		EmitterChain: 2, TargetChain: 255, Payload: bytes.Repeat([]byte{0xab}, plen)}
	for i := 0; i < nsig; i++ {
		v.Signatures = append(v.Signatures, &vaa.Signature{Index: uint8(i)})
	}
	b, _ := v.Marshal()
	return b
}

func FuzzUnmarshal(f *testing.F) {
	for _, n := range []int{0, 1, 2, 19} {
		for _, p := range []int{1, 2, 100, 999, 1000, 1001, 1500, 3000} {
			f.Add(seedVAA(n, p))
		}
	}
	f.Add([]byte{})
	f.Add(bytes.Repeat([]byte{1}, 56))
	f.Add(bytes.Repeat([]byte{1}, 60))
	f.Fuzz(func(t *testing.T, data []byte) {
		in := append([]byte{}, data...)
		v, err := vaa.Unmarshal(data)
		if !bytes.Equal(in, data) {
			t.Fatalf("C05:decoder-mutates-input")
		}
		if err != nil {
			if v != nil {
				t.Fatalf("C05:partial-vaa-returned-with-error")
			}
			return
		}
		if v == nil {
			t.Fatalf("C05:nil-vaa-without-error")
		}
		out, err := v.Marshal()
		if err != nil {
			t.Fatalf("C05:accepted-input-does-not-marshal")
		}
		if !bytes.Equal(out, data) {
			pl := len(data) - (6 + 66*int(data[5]) + 53)
			if pl > 1000 && len(out) < len(data) && bytes.HasPrefix(data, out) {
				t.Fatalf("C05:accepted-input-truncated payload>1000 (input %d bytes, payload %d, re-encodes to %d)", len(data), pl, len(out))
			}
			t.Fatalf("C05:accepted-input-reencodes-differently (input %d bytes, output %d bytes, sigcount %d, ts %d)", len(data), len(out), data[5], binary.BigEndian.Uint32(out[len(out)-1:]))
		}
	})
}
