module verif/harness/node

go 1.19

require (
	github.com/alephium/go-sdk v0.0.0-20230918114914-5feda0147395
	github.com/alephium/wormhole-fork/node v0.0.0
	github.com/anishathalye/porcupine v1.3.0
	github.com/benbjohnson/clock v1.3.0
	github.com/ethereum/go-ethereum v1.10.21
	github.com/libp2p/go-libp2p v0.22.0
	go.uber.org/zap v1.22.0
	golang.org/x/crypto v0.0.0-20220525230936-793ad666bf5e
	google.golang.org/grpc v1.42.0
	google.golang.org/protobuf v1.28.1
)

require (
	cloud.google.com/go v0.97.0 // indirect
	cloud.google.com/go/kms v1.0.0 // indirect
	cloud.google.com/go/logging v1.4.2 // indirect
	github.com/beorn7/perks v1.0.1 // indirect
	github.com/blendle/zapdriver v1.3.1 // indirect
	github.com/btcsuite/btcd v0.22.0-beta // indirect
	github.com/btcsuite/btcutil v1.0.3-0.20201208143702-a53e38424cce // indirect
	github.com/cenkalti/backoff/v4 v4.1.1 // indirect
	github.com/cespare/xxhash v1.1.0 // indirect
	github.com/cespare/xxhash/v2 v2.1.2 // indirect
	github.com/cheekybits/genny v1.0.0 // indirect
	github.com/containerd/cgroups v1.0.4 // indirect
	github.com/coreos/go-systemd v0.0.0-20190321100706-95778dfbb74e // indirect
	github.com/coreos/go-systemd/v22 v22.3.2 // indirect
	github.com/davecgh/go-spew v1.1.1 // indirect
	github.com/davidlazar/go-crypto v0.0.0-20200604182044-b73af7476f6c // indirect
	github.com/deckarep/golang-set v1.8.0 // indirect
	github.com/decred/dcrd/dcrec/secp256k1/v4 v4.1.0 // indirect
	github.com/desertbit/timer v0.0.0-20180107155436-c41aec40b27f // indirect
	github.com/dgraph-io/badger/v3 v3.2103.1 // indirect
	github.com/dgraph-io/ristretto v0.1.0 // indirect
	github.com/diamondburned/arikawa/v3 v3.0.0-rc.2 // indirect
	github.com/docker/go-units v0.4.0 // indirect
	github.com/dustin/go-humanize v1.0.0 // indirect
	github.com/elastic/gosigar v0.14.2 // indirect
	github.com/flynn/noise v1.0.0 // indirect
	github.com/francoispqt/gojay v1.2.13 // indirect
	github.com/go-stack/stack v1.8.0 // indirect
	github.com/godbus/dbus/v5 v5.1.0 // indirect
	github.com/gogo/protobuf v1.3.3 // indirect
	github.com/golang/glog v0.0.0-20210429001901-424d2337a529 // indirect
	github.com/golang/groupcache v0.0.0-20200121045136-8c9f03a8e57e // indirect
	github.com/golang/protobuf v1.5.2 // indirect
	github.com/golang/snappy v0.0.4 // indirect
	github.com/google/flatbuffers v1.12.0 // indirect
	github.com/google/go-cmp v0.5.8 // indirect
	github.com/google/gopacket v1.1.19 // indirect
	github.com/google/uuid v1.3.0 // indirect
	github.com/googleapis/gax-go/v2 v2.1.1 // indirect
	github.com/gorilla/mux v1.8.0 // indirect
	github.com/gorilla/schema v1.2.0 // indirect
	github.com/gorilla/websocket v1.5.0 // indirect
	github.com/grpc-ecosystem/go-grpc-middleware v1.3.0 // indirect
	github.com/grpc-ecosystem/go-grpc-prometheus v1.2.0 // indirect
	github.com/grpc-ecosystem/grpc-gateway/v2 v2.5.0 // indirect
	github.com/hashicorp/errwrap v1.0.0 // indirect
	github.com/hashicorp/go-multierror v1.1.1 // indirect
	github.com/hashicorp/golang-lru v0.5.5-0.20210104140557-80c98217689d // indirect
	github.com/huin/goupnp v1.0.3 // indirect
	github.com/improbable-eng/grpc-web v0.14.1 // indirect
	github.com/ipfs/go-cid v0.2.0 // indirect
	github.com/ipfs/go-datastore v0.5.1 // indirect
	github.com/ipfs/go-ipfs-util v0.0.2 // indirect
	github.com/ipfs/go-ipns v0.2.0 // indirect
	github.com/ipfs/go-log v1.0.5 // indirect
	github.com/ipfs/go-log/v2 v2.5.1 // indirect
	github.com/ipld/go-ipld-prime v0.9.0 // indirect
	github.com/jackpal/go-nat-pmp v1.0.2 // indirect
	github.com/jbenet/go-temp-err-catcher v0.1.0 // indirect
	github.com/jbenet/goprocess v0.1.4 // indirect
	github.com/klauspost/compress v1.15.1 // indirect
	github.com/klauspost/cpuid/v2 v2.1.0 // indirect
	github.com/koron/go-ssdp v0.0.3 // indirect
	github.com/libp2p/go-buffer-pool v0.1.0 // indirect
	github.com/libp2p/go-cidranger v1.1.0 // indirect
	github.com/libp2p/go-flow-metrics v0.1.0 // indirect
	github.com/libp2p/go-libp2p-asn-util v0.2.0 // indirect
	github.com/libp2p/go-libp2p-core v0.20.0 // indirect
	github.com/libp2p/go-libp2p-kad-dht v0.18.0 // indirect
	github.com/libp2p/go-libp2p-kbucket v0.4.7 // indirect
	github.com/libp2p/go-libp2p-pubsub v0.8.0 // indirect
	github.com/libp2p/go-libp2p-record v0.2.0 // indirect
	github.com/libp2p/go-msgio v0.2.0 // indirect
	github.com/libp2p/go-nat v0.1.0 // indirect
	github.com/libp2p/go-netroute v0.2.0 // indirect
	github.com/libp2p/go-reuseport v0.2.0 // indirect
	github.com/libp2p/go-yamux/v3 v3.1.2 // indirect
	github.com/lucas-clemente/quic-go v0.28.1 // indirect
	github.com/marten-seemann/qtls-go1-19 v0.1.0 // indirect
	github.com/marten-seemann/tcp v0.0.0-20210406111302-dfbc87cc63fd // indirect
	github.com/mattn/go-isatty v0.0.16 // indirect
	github.com/matttproud/golang_protobuf_extensions v1.0.1 // indirect
	github.com/miekg/dns v1.1.50 // indirect
	github.com/miguelmota/go-ethereum-hdwallet v0.1.0 // indirect
	github.com/mikioh/tcpinfo v0.0.0-20190314235526-30a79bb1804b // indirect
	github.com/mikioh/tcpopt v0.0.0-20190314235656-172688c1accc // indirect
	github.com/minio/sha256-simd v1.0.0 // indirect
	github.com/mr-tron/base58 v1.2.0 // indirect
	github.com/multiformats/go-base32 v0.0.4 // indirect
	github.com/multiformats/go-base36 v0.1.0 // indirect
	github.com/multiformats/go-multiaddr v0.6.0 // indirect
	github.com/multiformats/go-multiaddr-dns v0.3.1 // indirect
	github.com/multiformats/go-multiaddr-fmt v0.1.0 // indirect
	github.com/multiformats/go-multibase v0.1.1 // indirect
	github.com/multiformats/go-multicodec v0.5.0 // indirect
	github.com/multiformats/go-multihash v0.2.1 // indirect
	github.com/multiformats/go-multistream v0.3.3 // indirect
	github.com/multiformats/go-varint v0.0.6 // indirect
	github.com/opencontainers/runtime-spec v1.0.3-0.20210326190908-1c3f411f0417 // indirect
	github.com/opentracing/opentracing-go v1.2.0 // indirect
	github.com/pbnjay/memory v0.0.0-20210728143218-7b4eea64cf58 // indirect
	github.com/pkg/errors v0.9.1 // indirect
	github.com/polydawn/refmt v0.0.0-20190807091052-3d65705ee9f1 // indirect
	github.com/prometheus/client_golang v1.12.1 // indirect
	github.com/prometheus/client_model v0.2.0 // indirect
	github.com/prometheus/common v0.37.0 // indirect
	github.com/prometheus/procfs v0.8.0 // indirect
	github.com/raulk/go-watchdog v1.3.0 // indirect
	github.com/rjeczalik/notify v0.9.1 // indirect
	github.com/rs/cors v1.7.0 // indirect
	github.com/shirou/gopsutil v3.21.4-0.20210419000835-c7a38de76ee5+incompatible // indirect
	github.com/spaolacci/murmur3 v1.1.0 // indirect
	github.com/spf13/cobra v1.2.1 // indirect
	github.com/spf13/pflag v1.0.5 // indirect
	github.com/status-im/keycard-go v0.0.0-20200402102358-957c09536969 // indirect
	github.com/tendermint/tendermint v0.34.14 // indirect
	github.com/tklauser/go-sysconf v0.3.5 // indirect
	github.com/tklauser/numcpus v0.2.2 // indirect
	github.com/tyler-smith/go-bip39 v1.0.2 // indirect
	github.com/whyrusleeping/go-keyspace v0.0.0-20160322163242-5b898ac5add1 // indirect
	github.com/whyrusleeping/timecache v0.0.0-20160911033111-cfcb2f1abfee // indirect
	go.opencensus.io v0.23.0 // indirect
	go.uber.org/atomic v1.10.0 // indirect
	go.uber.org/multierr v1.8.0 // indirect
	golang.org/x/net v0.0.0-20220812174116-3211cb980234 // indirect
	golang.org/x/oauth2 v0.0.0-20220223155221-ee480838109b // indirect
	golang.org/x/sync v0.0.0-20220722155255-886fb9371eb4 // indirect
	golang.org/x/sys v0.0.0-20220811171246-fbc7d0a398ab // indirect
	golang.org/x/text v0.3.7 // indirect
	google.golang.org/api v0.58.0 // indirect
	google.golang.org/genproto v0.0.0-20211019152133-63b7e35f4404 // indirect
	lukechampine.com/blake3 v1.1.7 // indirect
	nhooyr.io/websocket v1.8.7 // indirect
)

replace github.com/alephium/wormhole-fork/node => /repo/node

replace github.com/gagliardetto/solana-go => github.com/certusone/solana-go v0.3.7-0.20210729105530-67b495e4e529

replace github.com/gogo/protobuf => github.com/regen-network/protobuf v1.3.3-alpha.regen.1
