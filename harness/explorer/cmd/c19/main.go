// C19 - the explorer ingests only VAAs verified against the guardian set they name.
// (a) gate: real vaaGossipConsumer.Push with valid / under-signed / wrongly signed / other-set /
// old-set / future-set VAAs against a JSON-RPC stub answering like the core contract;
// (b) guardian-set lookups during concurrent appends under the race detector, each history also
// checked for linearizability with porcupine; (c) a VAA whose hand-off failed is not marked seen.
package main

import (
	"context"
	"errors"
	"fmt"
	"math/rand"
	"net/http/httptest"
	"runtime"
	"runtime/debug"
	"sort"
	"strings"
	"sync"
	"sync/atomic"
	"time"

	"github.com/alephium/wormhole-fork/explorer-backend/deduplicator"
	"github.com/alephium/wormhole-fork/explorer-backend/guardiansets"
	"github.com/alephium/wormhole-fork/explorer-backend/processor"
	"github.com/alephium/wormhole-fork/node/pkg/common"
	ethAbi "github.com/alephium/wormhole-fork/node/pkg/ethereum/abi"
	"github.com/alephium/wormhole-fork/node/pkg/vaa"
	"github.com/anishathalye/porcupine"
	"github.com/dgraph-io/ristretto"
	"github.com/eko/gocache/v3/cache"
	"github.com/eko/gocache/v3/store"
	"github.com/ethereum/go-ethereum/accounts/abi"
	ethcommon "github.com/ethereum/go-ethereum/common"
	"github.com/ethereum/go-ethereum/common/hexutil"
	"github.com/ethereum/go-ethereum/rpc"
	"go.uber.org/zap"
	"verif/harness/explorer/internal/vlib"
)

var r *vlib.Run

// ---------------------------------------------------------------- chain stub

type chain struct {
	mu      sync.Mutex
	sets    [][]int // key-pool indices per set index
	current int     // highest set index that exists on chain
	abi     abi.ABI
	calls   int64
	srv     *httptest.Server
	rpcSrv  *rpc.Server
	addr    ethcommon.Address
	down    bool // the governance RPC is unreachable / answering with errors
}

type callArgs struct {
	To    *ethcommon.Address `json:"to"`
	Data  *hexutil.Bytes     `json:"data"`
	Input *hexutil.Bytes     `json:"input"`
}

type ethAPI struct{ c *chain }

func (a *ethAPI) ChainId() hexutil.Uint64 { return 1 }
func (a *ethAPI) Call(ctx context.Context, args callArgs, block interface{}) (hexutil.Bytes, error) {
	c := a.c
	c.mu.Lock()
	defer c.mu.Unlock()
	if c.down {
		return nil, errors.New("upstream connect error or disconnect/reset before headers (503)")
	}
	atomic.AddInt64(&c.calls, 1)
	var data []byte
	if args.Data != nil {
		data = *args.Data
	} else if args.Input != nil {
		data = *args.Input
	}
	if len(data) < 4 {
		return nil, errors.New("execution reverted")
	}
	m, err := c.abi.MethodById(data[:4])
	if err != nil {
		return nil, errors.New("execution reverted")
	}
	switch m.Name {
	case "getCurrentGuardianSetIndex":
		return m.Outputs.Pack(uint32(c.current))
	case "getGuardianSet":
		in, err := m.Inputs.Unpack(data[4:])
		if err != nil {
			return nil, err
		}
		idx := int(in[0].(uint32))
		gs := ethAbi.StructsGuardianSet{Keys: []ethcommon.Address{}}
		if idx <= c.current { // unknown indices answer with the zero value, like the contract's mapping
			gs.Keys = keysOf(c.sets[idx])
		}
		return m.Outputs.Pack(gs)
	}
	return nil, errors.New("execution reverted")
}

func newChain(sets [][]int, current int) *chain {
	parsed, err := abi.JSON(strings.NewReader(ethAbi.AbiABI))
	if err != nil {
		panic(err)
	}
	c := &chain{sets: sets, current: current, abi: parsed, addr: ethcommon.HexToAddress("0x0290FB167208Af455bB137780163b7B7a9a10C16")}
	c.rpcSrv = rpc.NewServer()
	if err := c.rpcSrv.RegisterName("eth", &ethAPI{c}); err != nil {
		panic(err)
	}
	c.srv = httptest.NewServer(c.rpcSrv)
	return c
}
func (c *chain) close() { c.rpcSrv.Stop(); c.srv.Close() }
func (c *chain) setDown(d bool) {
	c.mu.Lock()
	c.down = d
	c.mu.Unlock()
}
func (c *chain) setCurrent(n int) {
	c.mu.Lock()
	c.current = n
	c.mu.Unlock()
}

func keysOf(pool []int) []ethcommon.Address {
	out := make([]ethcommon.Address, len(pool))
	for i, k := range pool {
		out[i] = vlib.Addr(vlib.Key(k))
	}
	return out
}

func gsOf(pool []int, idx int) *common.GuardianSet {
	return &common.GuardianSet{Keys: keysOf(pool), Index: uint32(idx)}
}

func newDedup() *deduplicator.Deduplicator {
	c, err := ristretto.NewCache(&ristretto.Config{NumCounters: 10000, MaxCost: 10 * (1 << 20), BufferItems: 64})
	if err != nil {
		panic(err)
	}
	return deduplicator.New(cache.New[bool](store.NewRistretto(c)), zap.NewNop())
}

func drainC(ctx context.Context, ch chan *common.GuardianSet) {
	go func() {
		for {
			select {
			case <-ctx.Done():
				return
			case <-ch:
			}
		}
	}()
}

func sameKeys(a []ethcommon.Address, pool []int) bool {
	b := keysOf(pool)
	if len(a) != len(b) {
		return false
	}
	for i := range a {
		if a[i] != b[i] {
			return false
		}
	}
	return true
}

var serial uint64

func mkVAA(rng *rand.Rand, named uint32, signerPool []int, positions []int, corrupt string) ([]byte, *vaa.VAA) {
	serial++
	var em [32]byte
	rng.Read(em[:])
	payload := make([]byte, 1+rng.Intn(60))
	rng.Read(payload)
	body := vlib.BuildBody(uint32(1700000000+rng.Intn(1000)), rng.Uint32(), uint16(2+rng.Intn(5)), uint16(rng.Intn(5)), em, serial, 1, payload)
	return mkCopy(body, named, signerPool, positions, corrupt)
}

// mkCopy wraps a given signing body in a header of its own: the same message as another guardian node might re-gossip it.
func mkCopy(body []byte, named uint32, signerPool []int, positions []int, corrupt string) ([]byte, *vaa.VAA) {
	d := vlib.Digest(body)
	var idx []uint8
	var sigs [][]byte
	for i, p := range positions {
		idx = append(idx, uint8(p))
		k := vlib.Key(signerPool[p%len(signerPool)])
		if corrupt == "wrong-sig" && i == 0 {
			k = vlib.Key(299)
		}
		sigs = append(sigs, vlib.Sign(k, d))
	}
	if corrupt == "unordered" && len(idx) >= 2 {
		idx[0], idx[1] = idx[1], idx[0]
		sigs[0], sigs[1] = sigs[1], sigs[0]
	}
	if corrupt == "repeated" && len(idx) >= 2 {
		idx[1], sigs[1] = idx[0], sigs[0]
	}
	w := vlib.BuildWire(1, named, idx, sigs, body)
	v, err := vaa.Unmarshal(w)
	if err != nil {
		panic(err)
	}
	return w, v
}

// ---------------------------------------------------------------- (a) the gate

func gate(rng *rand.Rand, n int) {
	pool := func(base, n int) []int {
		var p []int
		for i := 0; i < n; i++ {
			p = append(p, base+i)
		}
		return p
	}
	n1 := 1 + rng.Intn(19)
	sets := [][]int{pool(1, n), pool(40, n1), pool(80, 1+rng.Intn(19)), pool(120, 3)}
	ch := newChain(sets, 2) // sets 0..2 exist on chain; 3 does not exist yet
	defer ch.close()
	ctx, cancel := context.WithCancel(context.Background())
	defer cancel()
	gsC := make(chan *common.GuardianSet, 1)
	drainC(ctx, gsC)
	gs := guardiansets.NewGuardianSets([]*common.GuardianSet{gsOf(sets[0], 0), gsOf(sets[1], 1)}, ch.srv.URL, zap.NewNop(), time.Hour, ch.addr, gsC)
	queue := make(chan *processor.Message, 4096)
	cons := processor.NewVAAGossipConsumer(gs, newDedup(), queue, zap.NewNop())
	type sent struct {
		desc string
	}
	descOf := map[uint64]string{}
	push := func(named int, signer int, count string, corrupt string) {
		sp := sets[signer]
		q := vlib.Quorum(len(sp))
		var cnt int
		switch count {
		case "q-1":
			cnt = q - 1
		case "q":
			cnt = q
		default:
			cnt = len(sp)
		}
		if cnt < 1 {
			return
		}
		pos := rng.Perm(len(sp))[:cnt]
		sort.Ints(pos)
		w, v := mkVAA(rng, uint32(named), sp, pos, corrupt)
		desc := fmt.Sprintf("names set %d, signed by %d of set %d (size %d, quorum %d), corruption=%s", named, cnt, signer, len(sp), q, corrupt)
		descOf[v.Sequence] = desc
		var pv interface{}
		var err error
		done := make(chan struct{})
		go func() {
			defer close(done)
			defer func() { pv = recover() }()
			err = cons.Push(ctx, v, w)
		}()
		select {
		case <-done:
		case <-time.After(30 * time.Second):
			r.Violation("gate:push-does-not-return", map[string]interface{}{"vaa": desc})
			return
		}
		r.Count("pushes", 1)
		r.Distinct("gate_cases", fmt.Sprintf("named=%d/signer=%d/%s/%s", named, signer, count, corrupt))
		if pv != nil {
			r.Violation("gate:push-panics", map[string]interface{}{"vaa": desc, "panic": fmt.Sprint(pv)})
		}
		if err == nil && named == signer && corrupt == "" && count != "q-1" && named <= 2 {
			r.Count("valid_accepted", 1)
		}
	}
	for _, named := range []int{0, 1, 2, 3} {
		for _, signer := range []int{0, 1, 2} {
			for _, count := range []string{"q-1", "q", "all"} {
				corrupts := []string{""}
				if named == signer {
					corrupts = []string{"", "wrong-sig", "unordered", "repeated"}
				}
				for _, c := range corrupts {
					push(named, signer, count, c)
				}
			}
		}
	}
	// the governance RPC goes down: VAAs naming a set the explorer has not learnt yet (set 3; sets 0..2 are known by now)
	// arrive signed by the newest known set - relabelled copies, or simply traffic right after a rotation. Without the set
	// they name nothing can be verified: they must not be queued on the strength of another set's keys.
	ch.setDown(true)
	for _, count := range []string{"q", "all"} {
		push(3, 2, count, "")
		push(3, 1, count, "")
	}
	r.Count("pushes_while_rpc_down", 4)
	ch.setDown(false)
	// everything that reached the queue must verify against the set it names
	for {
		select {
		case m := <-queue:
			r.Count("queued_checked", 1)
			w, err := vlib.ParseWire(m.VerifSerialized())
			wit := map[string]interface{}{"vaa": descOf[m.VerifVAA().Sequence], "n": n}
			if err != nil {
				r.Violation("gate:undecodable-VAA-queued", wit)
				continue
			}
			if w.SetIndex != m.VerifVAA().GuardianSetIndex || w.Sequence != m.VerifVAA().Sequence {
				r.Violation("gate:queued-VAA-differs-from-its-serialized-form", wit)
			}
			if int(w.SetIndex) > 2 {
				r.Violation("gate:VAA-naming-a-set-that-does-not-exist-queued", wit)
				continue
			}
			if err := w.CheckQuorumSigned(keysOf(sets[w.SetIndex])); err != nil {
				wit["why"] = err.Error()
				cls := "gate:queued-VAA-not-verified-against-the-set-it-names"
				if strings.Contains(err.Error(), "quorum") {
					cls = "gate:queued-VAA-below-quorum-of-the-set-it-names"
				}
				r.Violation(cls, wit)
			}
			continue
		default:
		}
		break
	}
	// a set asked for before it exists must not be remembered as empty once it exists
	before, errBefore := gs.GetGuardianSet(ctx, 3)
	ch.setCurrent(3)
	after, errAfter := gs.GetGuardianSet(ctx, 3)
	r.Count("future_set_histories", 1)
	if errAfter == nil && (after == nil || !sameKeys(after.Keys, sets[3]) || after.Index != 3) {
		r.Violation("lookup:stale-set-returned-for-index-that-now-exists", map[string]interface{}{"index": 3, "returned_keys": len(after.Keys), "chain_keys": len(sets[3]),
			"first_lookup": fmt.Sprintf("%v / err=%v", before != nil, errBefore)})
	}
}

// ---------------------------------------------------------------- (b) lookups during appends

type op struct {
	Kind string // get | current | append
	I    int    // get: index; append: from
	M    int    // append: to
}
type res struct {
	Idx int // returned set index (-1: error)
	OK  bool
}

func lookups(rng *rand.Rand, round int) {
	const M = 24
	sets := make([][]int, M+1)
	for i := range sets {
		sets[i] = []int{1 + i, 100 + i, 200 + (i % 50)}
	}
	ch := newChain(sets, M)
	defer ch.close()
	ctx, cancel := context.WithCancel(context.Background())
	defer cancel()
	gsC := make(chan *common.GuardianSet, 1)
	drainC(ctx, gsC)
	gs := guardiansets.NewGuardianSets([]*common.GuardianSet{gsOf(sets[0], 0)}, ch.srv.URL, zap.NewNop(), time.Hour, ch.addr, gsC)
	var hmu sync.Mutex
	var hist []porcupine.Operation
	t0 := time.Now()
	record := func(client int, o op, call int64, rs res) {
		hmu.Lock()
		hist = append(hist, porcupine.Operation{ClientId: client, Input: o, Call: call, Output: rs, Return: int64(time.Since(t0))})
		hmu.Unlock()
	}
	var hi int32 = 1 // highest index anyone may ask for (grows)
	var wg sync.WaitGroup
	worker := func(client int, seed int64, appender bool) {
		defer wg.Done()
		lr := rand.New(rand.NewSource(seed))
		for k := 0; k < 10; k++ {
			var o op
			switch {
			case appender && lr.Intn(2) == 0:
				cur := int(gs.GetCurrentGuardianSet().Index)
				from := cur + 1 - lr.Intn(2) // contiguous or overlapping by one
				if from < 1 {
					from = 1
				}
				to := from + lr.Intn(3)
				if to > M {
					to = M
				}
				if from > to {
					continue
				}
				o = op{Kind: "append", I: from, M: to}
				atomic.StoreInt32(&hi, int32(to))
			case lr.Intn(4) == 0:
				o = op{Kind: "current"}
			default:
				h := int(atomic.LoadInt32(&hi))
				o = op{Kind: "get", I: lr.Intn(h + 1)}
				if lr.Intn(10) == 0 && h < M {
					o.I = h + 1 // not yet known: fetched from the chain
				}
			}
			call := int64(time.Since(t0))
			rs := res{Idx: -1}
			func() {
				defer func() {
					if p := recover(); p != nil {
						st := string(debug.Stack())
						site := "unknown"
						for _, l := range strings.Split(st, "\n") {
							if strings.Contains(l, "explorer-backend/guardiansets.") && !strings.Contains(l, "Verif") {
								site = strings.TrimSpace(l)
								site = site[strings.LastIndex(site, "/")+1:]
								if i := strings.LastIndex(site, "("); i > 0 {
									site = site[:i]
								}
								break
							}
						}
						r.Violation("lookup:panic-during-concurrent-append:"+site, map[string]interface{}{"op": fmt.Sprintf("%+v", o), "panic": fmt.Sprint(p), "stack": st[:minInt(len(st), 1800)]})
					}
				}()
				switch o.Kind {
				case "append":
					var batch []*common.GuardianSet
					for i := o.I; i <= o.M; i++ {
						batch = append(batch, gsOf(sets[i], i))
					}
					_ = gs.VerifUpdateGuardianSets(batch)
					rs = res{Idx: o.M, OK: true}
				case "current":
					s := gs.GetCurrentGuardianSet()
					rs = res{Idx: int(s.Index), OK: true}
					if int(s.Index) > M || !sameKeys(s.Keys, sets[s.Index]) {
						r.Violation("lookup:current-set-has-wrong-keys", map[string]interface{}{"index": s.Index})
					}
				case "get":
					s, err := gs.GetGuardianSet(ctx, o.I)
					if err == nil && s != nil {
						rs = res{Idx: int(s.Index), OK: true}
						if int(s.Index) != o.I || !sameKeys(s.Keys, sets[o.I]) {
							r.Violation("lookup:set-returned-for-index-i-is-not-set-i", map[string]interface{}{"asked": o.I, "returned_index": s.Index, "keys_match": sameKeys(s.Keys, sets[o.I])})
						}
					}
				}
			}()
			r.Count("lookup_ops", 1)
			record(client, o, call, rs)
		}
	}
	for c := 0; c < 8; c++ {
		wg.Add(1)
		go worker(c, r.Seed*7919+int64(round*100+c), c < 2)
	}
	wg.Wait()
	// linearizability against: state = highest appended index; Get(i) -> i (state := max(state,i)); Current() -> state
	model := porcupine.Model{
		Init: func() interface{} { return 0 },
		Step: func(st, in, out interface{}) (bool, interface{}) {
			s, o, rs := st.(int), in.(op), out.(res)
			switch o.Kind {
			case "append":
				if o.I > s+1 {
					return true, s // a batch that does not connect is ignored (cannot happen here)
				}
				if o.M > s {
					return true, o.M
				}
				return true, s
			case "current":
				return rs.Idx == s, s
			default:
				if !rs.OK {
					return false, s
				}
				ns := s
				if o.I > s {
					ns = o.I
				}
				return rs.Idx == o.I, ns
			}
		},
		DescribeOperation: func(in, out interface{}) string { return fmt.Sprintf("%+v -> %+v", in, out) },
	}
	result, _ := porcupine.CheckOperationsVerbose(model, hist, 10*time.Second)
	r.Count("histories_checked", 1)
	switch result {
	case porcupine.Illegal:
		var ops []string
		for _, h := range hist {
			ops = append(ops, fmt.Sprintf("c%d [%d,%d] %+v -> %+v", h.ClientId, h.Call/1000, h.Return/1000, h.Input, h.Output))
		}
		r.Violation("lookup:history-not-linearizable", map[string]interface{}{"history": ops})
	case porcupine.Unknown:
		r.Count("histories_checker_timeout", 1)
	default:
		r.Distinct("histories", fmt.Sprintf("%d/%d", round, len(hist)))
	}
	if round == 0 {
		var ops []string
		for _, h := range hist[:minInt(12, len(hist))] {
			ops = append(ops, fmt.Sprintf("c%d %+v -> %+v", h.ClientId, h.Input, h.Output))
		}
		r.Sample(map[string]interface{}{"kind": "lookup history", "ops": ops})
	}
}

// ---------------------------------------------------------------- (b2) the same new set arrives from several sides at once

// stampede: a rotation is noticed at the same moment by the periodic updater and by lookups for gossiped VAAs that
// already name the new set. For every new index k, six goroutines released together hand the same batch [set k] to
// the append path and two ask for set k on demand (fetching it from the chain stub). Afterwards the list must still
// be indexed by set index: Get(i) is set i for every i <= k and the current set is set k.
func stampede(rng *rand.Rand, round int) {
	const M = 60
	sets := make([][]int, M+1)
	for i := range sets {
		sets[i] = []int{1 + i%90, 100 + i%90, 200 + (i % 50)}
	}
	ch := newChain(sets, 0)
	defer ch.close()
	ctx, cancel := context.WithCancel(context.Background())
	defer cancel()
	gsC := make(chan *common.GuardianSet, 1)
	drainC(ctx, gsC)
	gs := guardiansets.NewGuardianSets([]*common.GuardianSet{gsOf(sets[0], 0)}, ch.srv.URL, zap.NewNop(), time.Hour, ch.addr, gsC)
	for k := 1; k <= M; k++ {
		ch.setCurrent(k)
		var ready, goFlag int32 // spin barrier: the eight start within nanoseconds of each other
		var wg sync.WaitGroup
		for g := 0; g < 8; g++ {
			wg.Add(1)
			go func(g int) {
				defer wg.Done()
				defer func() {
					if p := recover(); p != nil {
						r.Violation("lookup:panic-during-concurrent-append:stampede", map[string]interface{}{"panic": fmt.Sprint(p), "index": k})
					}
				}()
				atomic.AddInt32(&ready, 1)
				for atomic.LoadInt32(&goFlag) == 0 {
				}
				if g < 6 {
					from := k - (g % 2) // the updater's batch sometimes starts one set earlier (overlap)
					var batch []*common.GuardianSet
					for i := from; i <= k; i++ {
						if i >= 1 {
							batch = append(batch, gsOf(sets[i], i))
						}
					}
					_ = gs.VerifUpdateGuardianSets(batch)
				} else {
					_, _ = gs.GetGuardianSet(ctx, k)
				}
			}(g)
		}
		for atomic.LoadInt32(&ready) < 8 {
			runtime.Gosched()
		}
		atomic.StoreInt32(&goFlag, 1)
		wg.Wait()
		r.Count("stampede_rotations", 1)
		cur := gs.GetCurrentGuardianSet()
		if int(cur.Index) != k || !sameKeys(cur.Keys, sets[k]) {
			r.Violation("lookup:current-set-has-wrong-keys", map[string]interface{}{"expected_index": k, "returned_index": cur.Index, "after": "simultaneous appends of the same new set"})
			return
		}
		lo := k - 2
		if k%10 == 0 || k == M || lo < 0 {
			lo = 0
		}
		for i := lo; i <= k; i++ {
			s, err := gs.GetGuardianSet(ctx, i)
			r.Count("lookup_ops", 1)
			if err != nil || s == nil || int(s.Index) != i || !sameKeys(s.Keys, sets[i]) {
				w := map[string]interface{}{"asked": i, "newest_index": k, "error": fmt.Sprint(err), "after": "simultaneous appends of the same new set"}
				if s != nil {
					w["returned_index"] = s.Index
				}
				r.Violation("lookup:set-returned-for-index-i-is-not-set-i", w)
				return
			}
		}
	}
	r.Distinct("histories", fmt.Sprintf("stampede/%d", round))
}

// ---------------------------------------------------------------- (c) hand-off failure is not remembered

func handoff(rng *rand.Rand) {
	sets := [][]int{{1, 2, 3}}
	ch := newChain(sets, 0)
	defer ch.close()
	ctx, cancel := context.WithCancel(context.Background())
	defer cancel()
	gsC := make(chan *common.GuardianSet, 1)
	drainC(ctx, gsC)
	gs := guardiansets.NewGuardianSets([]*common.GuardianSet{gsOf(sets[0], 0)}, ch.srv.URL, zap.NewNop(), time.Hour, ch.addr, gsC)
	capQ := 1 + rng.Intn(3)
	queue := make(chan *processor.Message, capQ)
	cons := processor.NewVAAGossipConsumer(gs, newDedup(), queue, zap.NewNop())
	var lastW []byte
	var lastV *vaa.VAA
	for i := 0; i <= capQ; i++ {
		w, v := mkVAA(rng, 0, sets[0], []int{0, 1, 2}, "")
		err := cons.Push(ctx, v, w)
		if i < capQ && err != nil {
			r.Violation("handoff:push-fails-although-queue-has-room", map[string]interface{}{"err": err.Error()})
			return
		}
		if i == capQ {
			if err == nil {
				r.Violation("handoff:push-succeeds-on-full-queue", map[string]interface{}{"capacity": capQ})
				return
			}
			lastW, lastV = w, v
		}
	}
	<-queue // room again
	time.Sleep(20 * time.Millisecond)
	for len(queue) > 0 {
		<-queue
	}
	// The valid VAA has been verified but not handed over. Copies of the same message with another header
	// (under-signed, wrongly signed, unsigned, naming a set that does not exist) arrive while there is room:
	// having seen the body before is no reason to let them through.
	pl, errB := vlib.ParseWire(lastW)
	if errB != nil {
		panic(errB)
	}
	body := pl.Body
	type variant struct {
		name    string
		named   uint32
		pos     []int
		corrupt string
	}
	variants := []variant{{"two-of-three-signatures", 0, []int{0, 2}, ""}, {"one-signature", 0, []int{1}, ""}, {"wrong-signer", 0, []int{0, 1, 2}, "wrong-sig"},
		{"names-set-that-does-not-exist", 1 + uint32(rng.Intn(5)), []int{0, 1, 2}, ""}, {"repeated-signature", 0, []int{0, 1, 2}, "repeated"}}
	rng.Shuffle(len(variants), func(i, j int) { variants[i], variants[j] = variants[j], variants[i] })
	for _, vr := range variants {
		w, v := mkCopy(body, vr.named, sets[0], vr.pos, vr.corrupt)
		errP := cons.Push(ctx, v, w)
		r.Count("handoff_invalid_copies_pushed", 1)
		for len(queue) > 0 {
			m := <-queue
			pw, err := vlib.ParseWire(m.VerifSerialized())
			if err != nil || pw.SetIndex != 0 || pw.CheckQuorumSigned(keysOf(sets[0])) != nil {
				r.Violation("handoff:invalid-copy-of-an-already-verified-message-queued:"+vr.name, map[string]interface{}{"capacity": capQ, "push_error": fmt.Sprint(errP)})
			}
		}
	}
	err := cons.Push(ctx, lastV, lastW)
	r.Count("handoff_scenarios", 1)
	found := false
	for {
		select {
		case m := <-queue:
			if m.VerifVAA().Sequence == lastV.Sequence {
				found = true
			}
			continue
		default:
		}
		break
	}
	if err != nil || !found {
		r.Violation("handoff:VAA-marked-seen-although-its-hand-off-failed", map[string]interface{}{"capacity": capQ, "second_push_error": fmt.Sprint(err), "queued_on_retry": found})
	}
}

// ---------------------------------------------------------------- (d) the dedupe entry has expired

// expiry: a valid VAA is verified, handed over and remembered by the deduplicator (configured with a short
// expiration through its own option); after the entry has lapsed, copies of the same body with invalid headers arrive.
func expiry(rng *rand.Rand) {
	n := 1 + rng.Intn(7)
	var pool []int
	for i := 0; i < n; i++ {
		pool = append(pool, 1+i)
	}
	sets := [][]int{pool, {60, 61, 62}}
	ch := newChain(sets, 1)
	defer ch.close()
	ctx, cancel := context.WithCancel(context.Background())
	defer cancel()
	gsC := make(chan *common.GuardianSet, 1)
	drainC(ctx, gsC)
	gs := guardiansets.NewGuardianSets([]*common.GuardianSet{gsOf(sets[0], 0), gsOf(sets[1], 1)}, ch.srv.URL, zap.NewNop(), time.Hour, ch.addr, gsC)
	queue := make(chan *processor.Message, 64)
	c, err := ristretto.NewCache(&ristretto.Config{NumCounters: 10000, MaxCost: 10 * (1 << 20), BufferItems: 64})
	if err != nil {
		panic(err)
	}
	dd := deduplicator.New(cache.New[bool](store.NewRistretto(c)), zap.NewNop(), deduplicator.WithExpiration(40*time.Millisecond))
	cons := processor.NewVAAGossipConsumer(gs, dd, queue, zap.NewNop())
	q := vlib.Quorum(n)
	all := make([]int, n)
	for i := range all {
		all[i] = i
	}
	w, v := mkVAA(rng, 0, sets[0], all, "")
	if err := cons.Push(ctx, v, w); err != nil {
		r.Violation("expiry:valid-VAA-rejected", map[string]interface{}{"err": err.Error(), "n": n})
		return
	}
	for len(queue) > 0 {
		<-queue
	}
	time.Sleep(120 * time.Millisecond)
	pl, _ := vlib.ParseWire(w)
	type variant struct {
		name    string
		named   uint32
		pool    []int
		pos     []int
		corrupt string
	}
	vs := []variant{{"wrong-signer", 0, sets[0], all, "wrong-sig"}, {"signed-by-other-set-under-this-index", 0, sets[1], []int{0, 1, 2}[:minInt(3, n)], ""},
		{"names-set-that-does-not-exist", 2 + uint32(rng.Intn(5)), sets[0], all, ""}}
	if q-1 >= 1 {
		vs = append(vs, variant{"below-quorum", 0, sets[0], all[:q-1], ""})
	}
	if n >= 2 {
		vs = append(vs, variant{"repeated-signature", 0, sets[0], all, "repeated"})
	}
	rng.Shuffle(len(vs), func(i, j int) { vs[i], vs[j] = vs[j], vs[i] })
	for _, vr := range vs {
		cw, cv := mkCopy(pl.Body, vr.named, vr.pool, vr.pos, vr.corrupt)
		errP := cons.Push(ctx, cv, cw)
		r.Count("expiry_invalid_copies_pushed", 1)
		for len(queue) > 0 {
			m := <-queue
			pw, err := vlib.ParseWire(m.VerifSerialized())
			if err != nil || pw.SetIndex != 0 || pw.CheckQuorumSigned(keysOf(sets[0])) != nil {
				r.Violation("expiry:invalid-copy-of-an-already-verified-message-queued:"+vr.name, map[string]interface{}{"n": n, "push_error": fmt.Sprint(errP)})
			}
		}
	}
	r.Count("expiry_scenarios", 1)
}

func minInt(a, b int) int {
	if a < b {
		return a
	}
	return b
}

func main() {
	r = vlib.Start("C19", "exploration")
	rng := r.Rand("gen")
	ns := []int{1, 2, 3, 4, 7, 13, 19}
	if !r.Quick() {
		ns = nil
		for n := 1; n <= 19; n++ {
			ns = append(ns, n)
		}
	}
	for rep := 0; rep < r.Pick(1, 8); rep++ {
		for _, n := range ns {
			gate(rng, n)
		}
	}
	for round := 0; round < r.Pick(40, 1500); round++ {
		lookups(rng, round)
	}
	for round := 0; round < r.Pick(12, 300); round++ {
		stampede(rng, round)
	}
	for i := 0; i < r.Pick(20, 300); i++ {
		handoff(rng)
	}
	for i := 0; i < r.Pick(20, 300); i++ {
		expiry(rng)
	}
	r.Count("evaluations", r.GetCount("pushes")+r.GetCount("lookup_ops")+r.GetCount("handoff_scenarios")+r.GetCount("expiry_scenarios"))
	if r.GetCount("valid_accepted") == 0 || r.GetCount("queued_checked") == 0 || r.GetCount("histories_checked") == 0 {
		r.Inconclusive("the gate never accepted a valid VAA or no lookup history was checked")
	}
	if t := r.GetCount("histories_checker_timeout"); t > 0 {
		r.Inconclusive(fmt.Sprintf("porcupine timed out on %d histories", t))
	}
	r.Assume("the core contract is a JSON-RPC stub answering eth_call for getCurrentGuardianSetIndex/getGuardianSet like the contract (zero value for unknown indices)",
		"the explorer is built against the node module version its go.mod pins (as the real binary is)")
	r.Finish("evaluations", "gate_cases", "(a) VAAs naming an old, the current, a not-yet-known and a nonexistent set, signed by q-1/q/all members of the named or of another set, with wrong / unordered / repeated signatures, for set sizes 1..19, also while the governance RPC answers with errors: whatever reaches the queue must verify against the set it names; (b) 8 goroutines doing Get(i)/Current()/Append over 24 sets, results checked against ground truth, histories checked with porcupine, -race; (b2) for each of 60 rotations eight goroutines released together append the same new set (six through the updater's append path, two through on-demand lookups), then every index must still answer with its own set; (c) push on a full queue, then invalid copies of the same message (under-signed, wrong signer, repeated signature, nonexistent set), then the retry; (d) a handed-over VAA whose dedupe entry (40 ms expiration via the deduplicator's own option) has lapsed, then invalid copies of the same body; distinct non-trivial = distinct gate case shapes", 20)
}
