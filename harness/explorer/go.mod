module verif/harness/explorer

go 1.19

require (
	github.com/alephium/wormhole-fork/explorer-backend v0.0.0
	github.com/alephium/wormhole-fork/node v0.0.0-20240818215257-cb0667c4f6c1
	github.com/anishathalye/porcupine v1.3.0
	github.com/dgraph-io/ristretto v0.1.1
	github.com/eko/gocache/v3 v3.1.2
	github.com/ethereum/go-ethereum v1.11.6
	go.uber.org/zap v1.23.0
	golang.org/x/crypto v0.1.0
)

require (
	cloud.google.com/go v0.97.0 // indirect
	cloud.google.com/go/kms v1.0.0 // indirect
	github.com/XiaoMi/pegasus-go-client v0.0.0-20210427083443-f3b6b08bc4c2 // indirect
	github.com/beorn7/perks v1.0.1 // indirect
	github.com/bradfitz/gomemcache v0.0.0-20221031212613-62deef7fc822 // indirect
	github.com/cenkalti/backoff/v4 v4.1.3 // indirect
	github.com/cespare/xxhash v1.1.0 // indirect
	github.com/cespare/xxhash/v2 v2.2.0 // indirect
	github.com/deckarep/golang-set/v2 v2.1.0 // indirect
	github.com/decred/dcrd/dcrec/secp256k1/v4 v4.1.0 // indirect
	github.com/dgraph-io/badger/v3 v3.2103.1 // indirect
	github.com/dgryski/go-rendezvous v0.0.0-20200823014737-9f7001d12a5f // indirect
	github.com/diamondburned/arikawa/v3 v3.0.0-rc.2 // indirect
	github.com/dustin/go-humanize v1.0.0 // indirect
	github.com/fsnotify/fsnotify v1.6.0 // indirect
	github.com/go-redis/redis/v8 v8.11.5 // indirect
	github.com/go-stack/stack v1.8.1 // indirect
	github.com/gogo/protobuf v1.3.3 // indirect
	github.com/golang/glog v1.0.0 // indirect
	github.com/golang/groupcache v0.0.0-20210331224755-41bb18bfe9da // indirect
	github.com/golang/protobuf v1.5.2 // indirect
	github.com/golang/snappy v0.0.5-0.20220116011046-fa5810519dcb // indirect
	github.com/google/flatbuffers v1.12.0 // indirect
	github.com/google/go-cmp v0.5.9 // indirect
	github.com/google/uuid v1.3.0 // indirect
	github.com/googleapis/gax-go/v2 v2.1.1 // indirect
	github.com/gorilla/schema v1.2.0 // indirect
	github.com/gorilla/websocket v1.5.0 // indirect
	github.com/grpc-ecosystem/go-grpc-middleware v1.3.0 // indirect
	github.com/grpc-ecosystem/go-grpc-prometheus v1.2.0 // indirect
	github.com/grpc-ecosystem/grpc-gateway/v2 v2.5.0 // indirect
	github.com/holiman/uint256 v1.2.2-0.20230321075855-87b91420868c // indirect
	github.com/ipfs/go-cid v0.2.0 // indirect
	github.com/klauspost/compress v1.15.15 // indirect
	github.com/klauspost/cpuid/v2 v2.1.0 // indirect
	github.com/libp2p/go-buffer-pool v0.1.0 // indirect
	github.com/libp2p/go-libp2p v0.22.0 // indirect
	github.com/libp2p/go-libp2p-core v0.20.0 // indirect
	github.com/matttproud/golang_protobuf_extensions v1.0.4 // indirect
	github.com/minio/sha256-simd v1.0.0 // indirect
	github.com/montanaflynn/stats v0.0.0-20171201202039-1bf9dbcd8cbe // indirect
	github.com/mr-tron/base58 v1.2.0 // indirect
	github.com/multiformats/go-base32 v0.0.4 // indirect
	github.com/multiformats/go-base36 v0.1.0 // indirect
	github.com/multiformats/go-multiaddr v0.6.0 // indirect
	github.com/multiformats/go-multibase v0.1.1 // indirect
	github.com/multiformats/go-multicodec v0.5.0 // indirect
	github.com/multiformats/go-multihash v0.2.1 // indirect
	github.com/multiformats/go-varint v0.0.6 // indirect
	github.com/pegasus-kv/thrift v0.13.0 // indirect
	github.com/pkg/errors v0.9.1 // indirect
	github.com/prometheus/client_golang v1.14.0 // indirect
	github.com/prometheus/client_model v0.3.0 // indirect
	github.com/prometheus/common v0.39.0 // indirect
	github.com/prometheus/procfs v0.9.0 // indirect
	github.com/shirou/gopsutil v3.21.4-0.20210419000835-c7a38de76ee5+incompatible // indirect
	github.com/sirupsen/logrus v1.9.0 // indirect
	github.com/spaolacci/murmur3 v1.1.0 // indirect
	github.com/spf13/cast v1.5.0 // indirect
	github.com/tklauser/go-sysconf v0.3.5 // indirect
	github.com/tklauser/numcpus v0.2.2 // indirect
	github.com/xdg-go/pbkdf2 v1.0.0 // indirect
	github.com/xdg-go/scram v1.1.1 // indirect
	github.com/xdg-go/stringprep v1.0.3 // indirect
	github.com/youmark/pkcs8 v0.0.0-20181117223130-1be2e3e5546d // indirect
	go.mongodb.org/mongo-driver v1.10.2 // indirect
	go.opencensus.io v0.23.0 // indirect
	go.uber.org/atomic v1.10.0 // indirect
	go.uber.org/multierr v1.8.0 // indirect
	golang.org/x/exp v0.0.0-20230206171751-46f607a40771 // indirect
	golang.org/x/net v0.8.0 // indirect
	golang.org/x/oauth2 v0.3.0 // indirect
	golang.org/x/sync v0.1.0 // indirect
	golang.org/x/sys v0.6.0 // indirect
	golang.org/x/text v0.8.0 // indirect
	golang.org/x/time v0.3.0 // indirect
	google.golang.org/api v0.58.0 // indirect
	google.golang.org/genproto v0.0.0-20221018160656-63c7b68cfc55 // indirect
	google.golang.org/grpc v1.50.1 // indirect
	google.golang.org/protobuf v1.28.1 // indirect
	gopkg.in/natefinch/lumberjack.v2 v2.0.0 // indirect
	gopkg.in/tomb.v2 v2.0.0-20161208151619-d5d1b5820637 // indirect
	k8s.io/apimachinery v0.25.3 // indirect
	lukechampine.com/blake3 v1.1.7 // indirect
)

replace github.com/alephium/wormhole-fork/explorer-backend => /repo/explorer-backend

replace github.com/gogo/protobuf => github.com/regen-network/protobuf v1.3.3-alpha.regen.1
