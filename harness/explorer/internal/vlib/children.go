package vlib

import (
	"bufio"
	"bytes"
	"encoding/json"
	"fmt"
	"os"
	"os/exec"
	"regexp"
	"strconv"
	"strings"
	"sync"
	"time"
)

// Child-side helpers: a child process reports over stdout, one line per item.

var outMu sync.Mutex

func emit(s string) {
	outMu.Lock()
	_, _ = os.Stdout.Write([]byte(s + "\n"))
	outMu.Unlock()
}
func CFinding(class string, witness interface{}) {
	b, _ := json.Marshal(map[string]interface{}{"class": class, "witness": witness})
	emit("FINDING " + string(b))
}
func CCount(key string, n int64) { emit(fmt.Sprintf("COUNT %s %d", key, n)) }
func CDistinct(set, v string)    { emit("DISTINCT " + set + " " + strings.ReplaceAll(v, "\n", " ")) }
func CInconclusive(s string)     { emit("INCONCLUSIVE " + strings.ReplaceAll(s, "\n", " ")) }
func CStep(s string)             { emit("STEP " + strings.ReplaceAll(s, "\n", " ")) }
func CSample(x interface{})      { b, _ := json.Marshal(x); emit("SAMPLE " + string(b)) }
func CDone()                     { emit("CHILD-OK") }

var reCrashFrame = regexp.MustCompile(`wormhole-fork/(?:node|explorer-backend)/([A-Za-z0-9_/]+\.(?:\(\*?[A-Za-z0-9_]+\)\.)?[A-Za-z0-9_]+)(?:\.func\d+)*\(`)

// CrashSite names the innermost repository function of the crashing goroutine.
func CrashSite(stderr string) (string, bool) {
	i := strings.LastIndex(stderr, "panic:")
	if j := strings.LastIndex(stderr, "fatal error:"); j > i {
		i = j
	}
	if i < 0 {
		return "", false
	}
	crash := stderr[i:]
	if k := strings.Index(crash, "\n\ngoroutine "); k > 0 {
		// keep the first (crashing) goroutine only
		rest := crash[k+2:]
		if k2 := strings.Index(rest, "\n\n"); k2 > 0 {
			crash = crash[:k+2+k2]
		}
	}
	for _, m := range reCrashFrame.FindAllStringSubmatch(crash, -1) {
		if !strings.Contains(m[1], "Verif") {
			return m[1], true
		}
	}
	return "", false
}

// RunChildren runs `batches` child processes (parallel up to par), each invoked as
// self -mode child -cseed <seed> -ccount <per> <extra...>, and folds their reports into r.
func (r *Run) RunChildren(self string, batches, per, par int, wd time.Duration, extra ...string) {
	var wg sync.WaitGroup
	sem := make(chan struct{}, par)
	for b := 0; b < batches; b++ {
		wg.Add(1)
		sem <- struct{}{}
		go func(b int) {
			defer wg.Done()
			defer func() { <-sem }()
			cs := r.Seed*1000003 + int64(b)
			args := append([]string{"-mode", "child", "-cseed", strconv.FormatInt(cs, 10), "-ccount", strconv.Itoa(per), "-tier", r.Tier}, extra...)
			cmd := exec.Command(self, args...)
			var so, se bytes.Buffer
			cmd.Stdout, cmd.Stderr = &so, &se
			if err := cmd.Start(); err != nil {
				r.Inconclusive("cannot start child: " + err.Error())
				return
			}
			done := make(chan error, 1)
			go func() { done <- cmd.Wait() }()
			var werr error
			timedOut := false
			select {
			case werr = <-done:
			case <-time.After(wd):
				_ = cmd.Process.Signal(os.Interrupt)
				_ = cmd.Process.Kill()
				<-done
				timedOut = true
			}
			var steps []string
			ok := false
			sc := bufio.NewScanner(&so)
			sc.Buffer(make([]byte, 1<<20), 64<<20)
			for sc.Scan() {
				line := sc.Text()
				switch {
				case strings.HasPrefix(line, "FINDING "):
					var f struct {
						Class   string      `json:"class"`
						Witness interface{} `json:"witness"`
					}
					if json.Unmarshal([]byte(line[8:]), &f) == nil {
						r.Violation(f.Class, f.Witness)
					}
				case strings.HasPrefix(line, "COUNT "):
					p := strings.Fields(line)
					if len(p) == 3 {
						n, _ := strconv.ParseInt(p[2], 10, 64)
						r.Count(p[1], n)
					}
				case strings.HasPrefix(line, "DISTINCT "):
					p := strings.SplitN(line, " ", 3)
					if len(p) == 3 {
						r.Distinct(p[1], p[2])
					}
				case strings.HasPrefix(line, "SAMPLE "):
					var x interface{}
					if json.Unmarshal([]byte(line[7:]), &x) == nil {
						r.Sample(x)
					}
				case strings.HasPrefix(line, "INCONCLUSIVE "):
					r.InconclusiveCase(line[13:])
				case strings.HasPrefix(line, "STEP "):
					steps = append(steps, line[5:])
					if len(steps) > 40 {
						steps = steps[len(steps)-40:]
					}
				case line == "CHILD-OK":
					ok = true
				}
			}
			r.Count("child_processes", 1)
			if ok && werr == nil {
				return
			}
			es := se.String()
			tail := es
			if i := strings.LastIndex(es, "panic:"); i >= 0 {
				tail = es[i:]
			} else if i := strings.LastIndex(es, "fatal error:"); i >= 0 {
				tail = es[i:]
			}
			if len(tail) > 5000 {
				tail = tail[:5000]
			}
			w := map[string]interface{}{"child_seed": cs, "last_steps": steps, "stderr": tail, "exit": fmt.Sprint(werr)}
			switch site, crashed := CrashSite(es); {
			case timedOut:
				r.InconclusiveCase(fmt.Sprintf("child %d exceeded its watchdog (%s); last step: %v", b, wd, lastOf(steps)))
			case crashed:
				r.Violation("process-crash-in:"+site, w)
			case strings.Contains(es, "panic:") || strings.Contains(es, "fatal error:"):
				r.Inconclusive("child crashed outside repository code: " + firstLine(tail))
			default:
				r.Inconclusive(fmt.Sprintf("child exited abnormally (%v) without a crash report", werr))
			}
		}(b)
	}
	wg.Wait()
}

func lastOf(a []string) string {
	if len(a) == 0 {
		return ""
	}
	return a[len(a)-1]
}
func firstLine(s string) string {
	if i := strings.Index(s, "\n"); i > 0 {
		return s[:i]
	}
	return s
}
