// Package vlib is the small runtime shared by every monitor program in /verif:
// tier/seed handling, violation recording with known-finding matching, evidence files.
package vlib

import (
	"crypto/sha256"
	"encoding/hex"
	"encoding/json"
	"flag"
	"fmt"
	"math/rand"
	"os"
	"path/filepath"
	"regexp"
	"sort"
	"strconv"
	"strings"
	"sync"
	"time"
)

const (
	ExitHeld         = 0
	ExitViolation    = 1
	ExitInconclusive = 3
)

type KnownFinding struct {
	Property string `json:"property"`
	ID       string `json:"id"`
	Status   string `json:"status"` // "known" | "fixed"
	Match    string `json:"match"`  // regexp over the violation class
	What     string `json:"what"`
	Commit   string `json:"commit,omitempty"`
}

type violation struct {
	Class   string      `json:"class"`
	Count   int         `json:"count"`
	Witness interface{} `json:"witness"`
	Known   string      `json:"known_finding,omitempty"`
	Replay  string      `json:"replay,omitempty"`
}

type Run struct {
	ID    string
	Tier  string
	Seed  int64
	Level string

	mu        sync.Mutex
	start     time.Time
	evidence  string
	replayDir string
	known     []KnownFinding
	viol      map[string]*violation
	violOrder []string
	counts    map[string]int64
	distinct  map[string]map[string]struct{}
	samples   []interface{}
	maxSample int
	assume    []string
	extra     map[string]interface{}
	inconcl   []string
	softInc   []string
}

// Start parses the common flags. Extra flags must be registered before calling it.
var (
	tier = flag.String("tier", envOr("VERIF_TIER", "quick"), "quick|thorough")
	seed = flag.Int64("seed", envInt("VERIF_SEED", 1), "PRNG seed")
	ev   = flag.String("evidence", "", "evidence file (default /verif/evidence/<id>.json)")
	rd   = flag.String("replays", Home()+"/replays", "replay dir")
	kf   = flag.String("known", Home()+"/known_findings.json", "known findings file")
)

func Start(id, level string) *Run {
	if !flag.Parsed() {
		flag.Parse()
	}
	if *ev == "" {
		*ev = Home() + "/evidence/" + id + ".json"
	}
	if *tier != "quick" && *tier != "thorough" {
		*tier = "quick"
	}
	r := &Run{ID: id, Tier: *tier, Seed: *seed, Level: level, start: time.Now(), evidence: *ev, replayDir: *rd,
		viol: map[string]*violation{}, counts: map[string]int64{}, distinct: map[string]map[string]struct{}{},
		maxSample: 4, extra: map[string]interface{}{}}
	if b, err := os.ReadFile(*kf); err == nil {
		var f struct {
			Findings []KnownFinding `json:"findings"`
		}
		if err := json.Unmarshal(b, &f); err != nil {
			fmt.Fprintf(os.Stderr, "cannot parse %s: %v\n", *kf, err)
			os.Exit(2)
		}
		for _, k := range f.Findings {
			if k.Property == id && k.Status == "known" {
				r.known = append(r.known, k)
			}
		}
	}
	_ = os.MkdirAll(filepath.Dir(r.evidence), 0o755)
	_ = os.MkdirAll(r.replayDir, 0o755)
	return r
}

// Home is the /verif tree the running check belongs to (VERIF_HOME is exported by bin/check).
func Home() string { return envOr("VERIF_HOME", "/verif") }

// Repo is the repository tree the monitors are built from and read contract sources from
// (VERIF_REPO is exported by bin/check; /repo unless a background run works on a snapshot).
func Repo() string { return envOr("VERIF_REPO", "/repo") }

func envOr(k, d string) string {
	if v := os.Getenv(k); v != "" {
		return v
	}
	return d
}
func envInt(k string, d int64) int64 {
	if v := os.Getenv(k); v != "" {
		if n, err := strconv.ParseInt(v, 10, 64); err == nil {
			return n
		}
	}
	return d
}

func (r *Run) Quick() bool { return r.Tier == "quick" }

// Pick returns q in quick tier and t in thorough tier.
func (r *Run) Pick(q, t int) int {
	if r.Quick() {
		return q
	}
	return t
}

// Rand returns a PRNG whose stream is a pure function of (seed, name).
func (r *Run) Rand(name string) *rand.Rand {
	h := sha256.Sum256([]byte(fmt.Sprintf("%d/%s/%s", r.Seed, r.ID, name)))
	var s int64
	for i := 0; i < 8; i++ {
		s = s<<8 | int64(h[i])
	}
	return rand.New(rand.NewSource(s))
}

// Violation records one oracle failure. class identifies the failing site / input class /
// history class; it is what known findings are matched against.
func (r *Run) Violation(class string, witness interface{}) {
	r.mu.Lock()
	defer r.mu.Unlock()
	v, ok := r.viol[class]
	if ok {
		v.Count++
		return
	}
	v = &violation{Class: class, Count: 1, Witness: witness}
	for _, k := range r.known {
		if re, err := regexp.Compile(k.Match); err == nil && re.MatchString(class) {
			v.Known = k.ID + ": " + k.What
			break
		}
	}
	r.viol[class] = v
	r.violOrder = append(r.violOrder, class)
}

func (r *Run) Violations() int {
	r.mu.Lock()
	defer r.mu.Unlock()
	n := 0
	for _, v := range r.viol {
		if v.Known == "" {
			n++
		}
	}
	return n
}

// Inconclusive marks the whole run inconclusive (exit 3): a precondition of the oracle failed
// (contract source not extractable, monitor could not start, a path was never exercised).
func (r *Run) Inconclusive(why string) {
	r.mu.Lock()
	defer r.mu.Unlock()
	r.inconcl = append(r.inconcl, why)
}

// InconclusiveCase records that ONE case (script, scenario, child batch) could not be judged -
// a watchdog fired, a rig did not start. The case is neither held nor violated; it is listed in
// the evidence. The run as a whole only becomes inconclusive when such cases exceed a tenth of
// all cases (and more than two): a handful of them on a loaded machine says nothing about the
// property, but neither may they silently replace real coverage.
func (r *Run) InconclusiveCase(why string) {
	r.mu.Lock()
	defer r.mu.Unlock()
	r.softInc = append(r.softInc, why)
}

func (r *Run) Count(key string, n int64) {
	r.mu.Lock()
	r.counts[key] += n
	r.mu.Unlock()
}

func (r *Run) GetCount(key string) int64 {
	r.mu.Lock()
	defer r.mu.Unlock()
	return r.counts[key]
}

// Distinct adds value to the named set of distinct observations.
func (r *Run) Distinct(set, value string) {
	r.mu.Lock()
	m := r.distinct[set]
	if m == nil {
		m = map[string]struct{}{}
		r.distinct[set] = m
	}
	if len(value) > 40 {
		h := sha256.Sum256([]byte(value))
		value = hex.EncodeToString(h[:12])
	}
	m[value] = struct{}{}
	r.mu.Unlock()
}

func (r *Run) DistinctN(set string) int {
	r.mu.Lock()
	defer r.mu.Unlock()
	return len(r.distinct[set])
}

func (r *Run) Sample(x interface{}) {
	r.mu.Lock()
	if len(r.samples) < r.maxSample {
		r.samples = append(r.samples, x)
	}
	r.mu.Unlock()
}

func (r *Run) Assume(s ...string) { r.mu.Lock(); r.assume = append(r.assume, s...); r.mu.Unlock() }

func (r *Run) Extra(k string, v interface{}) { r.mu.Lock(); r.extra[k] = v; r.mu.Unlock() }

// Finish writes the evidence file, prints the verdict lines and exits.
// evaluations: counter name holding the number of cases; nontrivialSet: distinct set whose
// size is reported as distinct_nontrivial; need: minimum of it for the run to be conclusive.
func (r *Run) Finish(evalCounter, nontrivialSet, rule string, need int) {
	r.CollectRaces()
	r.mu.Lock()
	cov := map[string]interface{}{}
	for k, v := range r.extra {
		cov[k] = v
	}
	cov["evaluations"] = r.counts[evalCounter]
	cov["distinct_nontrivial"] = len(r.distinct[nontrivialSet])
	cov["rule"] = rule
	if len(r.samples) == 0 {
		r.samples = append(r.samples, "no sample recorded")
	}
	cov["samples"] = r.samples
	cnt := map[string]int64{}
	for k, v := range r.counts {
		cnt[k] = v
	}
	cov["observed_counts"] = cnt
	ds := map[string]int{}
	for k, v := range r.distinct {
		ds[k] = len(v)
	}
	cov["observed_distinct"] = ds

	var vlist []*violation
	nviol := 0
	for _, c := range r.violOrder {
		v := r.viol[c]
		if v.Known == "" {
			nviol++
			h := sha256.Sum256([]byte(c))
			p := filepath.Join(r.replayDir, fmt.Sprintf("%s-%s.json", r.ID, hex.EncodeToString(h[:6])))
			b, _ := json.MarshalIndent(map[string]interface{}{"property": r.ID, "tier": r.Tier, "seed": r.Seed, "class": c, "count": v.Count, "witness": v.Witness}, "", " ")
			_ = os.WriteFile(p, b, 0o644)
			v.Replay = p
		}
		vlist = append(vlist, v)
	}
	cov["violation_classes"] = vlist
	if len(r.inconcl) > 0 {
		cov["inconclusive"] = r.inconcl
	}
	if n := len(r.softInc); n > 0 {
		show := r.softInc
		if len(show) > 20 {
			show = show[:20]
		}
		cov["inconclusive_cases"] = map[string]interface{}{"count": n, "first": show}
		if n > 2 && int64(n)*10 > r.counts[evalCounter] {
			r.inconcl = append(r.inconcl, fmt.Sprintf("%d of %d cases could not be judged (watchdogs / start-up failures): %s", n, r.counts[evalCounter], show[0]))
			cov["inconclusive"] = r.inconcl
		}
	}
	if int64(len(r.distinct[nontrivialSet])) < int64(need) || r.counts[evalCounter] < 1 {
		r.inconcl = append(r.inconcl, fmt.Sprintf("only %d distinct non-trivial cases observed (need %d)", len(r.distinct[nontrivialSet]), need))
		cov["inconclusive"] = r.inconcl
	}
	ev := map[string]interface{}{
		"property_id": r.ID, "tier": r.Tier, "seed": r.Seed, "level": r.Level,
		"coverage": cov, "assumptions": r.assume, "wall_s": time.Since(r.start).Seconds(), "violations": nviol,
	}
	if r.assume == nil {
		ev["assumptions"] = []string{}
	}
	b, _ := json.MarshalIndent(ev, "", " ")
	tmp := r.evidence + ".tmp"
	if err := os.WriteFile(tmp, b, 0o644); err == nil {
		_ = os.Rename(tmp, r.evidence)
	}
	// verdict lines
	sort.SliceStable(vlist, func(i, j int) bool { return vlist[i].Class < vlist[j].Class })
	// one line per listed finding (a finding may be matched by several violation classes)
	knownSeen := map[string][]string{}
	var knownOrder []string
	for _, v := range vlist {
		if v.Known != "" {
			if _, ok := knownSeen[v.Known]; !ok {
				knownOrder = append(knownOrder, v.Known)
			}
			knownSeen[v.Known] = append(knownSeen[v.Known], fmt.Sprintf("%s x%d", v.Class, v.Count))
		}
	}
	for _, k := range knownOrder {
		fmt.Printf("KNOWN-FINDING: property=%s %s [observed as: %s]\n", r.ID, k, strings.Join(knownSeen[k], "; "))
	}
	for _, v := range vlist {
		if v.Known == "" {
			fmt.Printf("VIOLATION property=%s replay=%s\n", r.ID, v.Replay)
			fmt.Printf("  class=%s count=%d\n", v.Class, v.Count)
		}
	}
	inc := r.inconcl
	r.mu.Unlock()
	fmt.Printf("%s %s seed=%d: evaluations=%d distinct_nontrivial=%d violations=%d wall=%.1fs\n", r.ID, r.Tier, r.Seed,
		cov["evaluations"], cov["distinct_nontrivial"], nviol, time.Since(r.start).Seconds())
	if nviol > 0 {
		os.Exit(ExitViolation)
	}
	if len(inc) > 0 {
		for _, s := range inc {
			fmt.Printf("INCONCLUSIVE property=%s %s\n", r.ID, s)
		}
		os.Exit(ExitInconclusive)
	}
	os.Exit(ExitHeld)
}

// Hex is a helper for witnesses.
func Hex(b []byte) string {
	if len(b) > 256 {
		return hex.EncodeToString(b[:256]) + fmt.Sprintf("...(%d bytes)", len(b))
	}
	return hex.EncodeToString(b)
}
