package vlib

import (
	"bytes"
	"crypto/ecdsa"
	"crypto/sha256"
	"encoding/binary"
	"errors"
	"fmt"
	"math/big"

	ethcommon "github.com/ethereum/go-ethereum/common"
	"github.com/ethereum/go-ethereum/crypto"
	"golang.org/x/crypto/sha3"
)

// Key returns the i-th key of the deterministic key pool.
func Key(i int) *ecdsa.PrivateKey {
	h := sha256.Sum256([]byte(fmt.Sprintf("verif-key-%d", i)))
	k, err := crypto.ToECDSA(h[:])
	if err != nil {
		panic(err)
	}
	return k
}

func Addr(k *ecdsa.PrivateKey) ethcommon.Address { return crypto.PubkeyToAddress(k.PublicKey) }

// Keccak is computed with x/crypto directly (not through the code under test).
func Keccak(b []byte) []byte {
	h := sha3.NewLegacyKeccak256()
	h.Write(b)
	return h.Sum(nil)
}

// Digest is the double keccak of a VAA body.
func Digest(body []byte) []byte { return Keccak(Keccak(body)) }

func Sign(k *ecdsa.PrivateKey, digest []byte) []byte {
	s, err := crypto.Sign(digest, k)
	if err != nil {
		panic(err)
	}
	return s
}

// Recover returns the address that signed digest, or an error.
func Recover(digest, sig []byte) (ethcommon.Address, error) {
	if len(sig) != 65 || len(digest) != 32 {
		return ethcommon.Address{}, errors.New("bad length")
	}
	pk, err := crypto.Ecrecover(digest, sig)
	if err != nil {
		return ethcommon.Address{}, err
	}
	return ethcommon.BytesToAddress(Keccak(pk[1:])[12:]), nil
}

// WireVAA is the harness' own view of the wire format (independent decoder).
type WireVAA struct {
	Version   uint8
	SetIndex  uint32
	SigIdx    []uint8
	Sigs      [][]byte
	Body      []byte
	Timestamp uint32
	Nonce     uint32
	EChain    uint16
	TChain    uint16
	Emitter   [32]byte
	Sequence  uint64
	CLevel    uint8
	Payload   []byte
}

func ParseWire(b []byte) (*WireVAA, error) {
	if len(b) < 6 {
		return nil, errors.New("short header")
	}
	w := &WireVAA{Version: b[0], SetIndex: binary.BigEndian.Uint32(b[1:5])}
	n := int(b[5])
	off := 6
	if len(b) < off+66*n+53 {
		return nil, errors.New("short")
	}
	for i := 0; i < n; i++ {
		w.SigIdx = append(w.SigIdx, b[off])
		w.Sigs = append(w.Sigs, append([]byte{}, b[off+1:off+66]...))
		off += 66
	}
	w.Body = append([]byte{}, b[off:]...)
	bd := w.Body
	w.Timestamp = binary.BigEndian.Uint32(bd[0:4])
	w.Nonce = binary.BigEndian.Uint32(bd[4:8])
	w.EChain = binary.BigEndian.Uint16(bd[8:10])
	w.TChain = binary.BigEndian.Uint16(bd[10:12])
	copy(w.Emitter[:], bd[12:44])
	w.Sequence = binary.BigEndian.Uint64(bd[44:52])
	w.CLevel = bd[52]
	w.Payload = bd[53:]
	return w, nil
}

func (w *WireVAA) ID() string {
	return fmt.Sprintf("%d/%x/%d/%d", w.EChain, w.Emitter, w.TChain, w.Sequence)
}

// Quorum is the specification floor(2n/3)+1.
func Quorum(n int) int { return 2*n/3 + 1 }

// CheckQuorumSigned is the independent acceptance predicate of C01/C19: strictly ascending
// indices inside the set, each signature recovers to the key at its index, >= quorum distinct.
func (w *WireVAA) CheckQuorumSigned(keys []ethcommon.Address) error {
	if len(keys) == 0 {
		return errors.New("empty set")
	}
	d := Digest(w.Body)
	last := -1
	seen := map[ethcommon.Address]bool{}
	for i, idx := range w.SigIdx {
		if int(idx) <= last {
			return fmt.Errorf("signature %d: index %d not ascending", i, idx)
		}
		last = int(idx)
		if int(idx) >= len(keys) {
			return fmt.Errorf("signature %d: index %d outside set of %d", i, idx, len(keys))
		}
		a, err := Recover(d, w.Sigs[i])
		if err != nil {
			return fmt.Errorf("signature %d: %v", i, err)
		}
		if a != keys[idx] {
			return fmt.Errorf("signature %d: recovers to %s, set[%d]=%s", i, a.Hex(), idx, keys[idx].Hex())
		}
		if seen[a] {
			return fmt.Errorf("signature %d: signer repeated", i)
		}
		seen[a] = true
	}
	if len(seen) < Quorum(len(keys)) {
		return fmt.Errorf("%d signatures < quorum %d of %d", len(seen), Quorum(len(keys)), len(keys))
	}
	return nil
}

// BuildBody lays the body out per the specification in C04.
func BuildBody(ts, nonce uint32, ec, tc uint16, em [32]byte, seq uint64, cl uint8, payload []byte) []byte {
	var b bytes.Buffer
	var t [8]byte
	binary.BigEndian.PutUint32(t[:4], ts)
	b.Write(t[:4])
	binary.BigEndian.PutUint32(t[:4], nonce)
	b.Write(t[:4])
	binary.BigEndian.PutUint16(t[:2], ec)
	b.Write(t[:2])
	binary.BigEndian.PutUint16(t[:2], tc)
	b.Write(t[:2])
	b.Write(em[:])
	binary.BigEndian.PutUint64(t[:8], seq)
	b.Write(t[:8])
	b.WriteByte(cl)
	b.Write(payload)
	return b.Bytes()
}

// BuildWire assembles header + signatures + body.
func BuildWire(version uint8, setIndex uint32, idx []uint8, sigs [][]byte, body []byte) []byte {
	var b bytes.Buffer
	b.WriteByte(version)
	var t [4]byte
	binary.BigEndian.PutUint32(t[:], setIndex)
	b.Write(t[:])
	b.WriteByte(uint8(len(idx)))
	for i := range idx {
		b.WriteByte(idx[i])
		s := make([]byte, 65)
		copy(s, sigs[i])
		b.Write(s)
	}
	b.Write(body)
	return b.Bytes()
}

// Secp256k1N is the group order (for s -> n-s malleation).
var Secp256k1N, _ = new(big.Int).SetString("fffffffffffffffffffffffffffffffebaaedce6af48a03bbfd25e8cd0364141", 16)
