package vlib

import (
	"os"
	"path/filepath"
	"regexp"
	"sort"
	"strings"
)

// CollectRaces reads the race-detector logs of this process and its children
// (GORACE log_path=$VERIF_RACE_LOG) and records each distinct race as a violation.
// Distinct = pair of innermost frames inside the repository for the two accesses.
func (r *Run) CollectRaces() {
	prefix := os.Getenv("VERIF_RACE_LOG")
	if prefix == "" {
		return
	}
	files, _ := filepath.Glob(prefix + ".*")
	reFrame := regexp.MustCompile(`^\s{2}(\S+)\(`)
	total := 0
	for _, f := range files {
		b, err := os.ReadFile(f)
		if err != nil {
			continue
		}
		for _, blk := range strings.Split(string(b), "WARNING: DATA RACE")[1:] {
			total++
			if i := strings.Index(blk, "=================="); i >= 0 {
				blk = blk[:i]
			}
			// split into stacks (separated by blank lines); keep the two access stacks
			var stacks [][]string
			for _, sec := range strings.Split(blk, "\n\n") {
				var frames []string
				for _, l := range strings.Split(sec, "\n") {
					if m := reFrame.FindStringSubmatch(l); m != nil {
						frames = append(frames, m[1])
					}
				}
				if len(frames) > 0 {
					stacks = append(stacks, frames)
				}
			}
			var pair []string
			inRepo := false
			for i := 0; i < len(stacks) && i < 2; i++ {
				// the innermost frame that is not runtime/sync plumbing is the racing access
				pick := stacks[i][0]
				for _, fr := range stacks[i] {
					if strings.HasPrefix(fr, "runtime.") || strings.HasPrefix(fr, "sync.") || strings.HasPrefix(fr, "sync/atomic.") {
						continue
					}
					pick = fr
					break
				}
				if strings.Contains(pick, "alephium/wormhole-fork/") {
					inRepo = true
				}
				pick = strings.TrimPrefix(pick, "github.com/alephium/wormhole-fork/")
				pair = append(pair, pick)
			}
			sort.Strings(pair)
			cls := "data-race:" + strings.Join(pair, "|")
			if !inRepo {
				r.Inconclusive("race report without repository frames (harness race?): " + cls)
				continue
			}
			w := blk
			if len(w) > 3000 {
				w = w[:3000]
			}
			r.Violation(cls, map[string]interface{}{"report": w, "log": f})
		}
	}
	r.Count("race_reports", int64(total))
	r.Extra("race_detector", os.Getenv("GORACE"))
}
