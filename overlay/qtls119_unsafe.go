package qtls

import (
	"crypto/tls"
	"reflect"
	"unsafe"
)

// init() layout assertion removed by /verif overlay (QUIC is never exercised)
var _ = structsEqual
var _ tls.Config

func toConnectionState(c connectionState) ConnectionState {
	return *(*ConnectionState)(unsafe.Pointer(&c))
}

func toClientSessionState(s *clientSessionState) *ClientSessionState {
	return (*ClientSessionState)(unsafe.Pointer(s))
}

func fromClientSessionState(s *ClientSessionState) *clientSessionState {
	return (*clientSessionState)(unsafe.Pointer(s))
}

func toCertificateRequestInfo(i *certificateRequestInfo) *CertificateRequestInfo {
	return (*CertificateRequestInfo)(unsafe.Pointer(i))
}

func toConfig(c *config) *Config {
	return (*Config)(unsafe.Pointer(c))
}

func fromConfig(c *Config) *config {
	return (*config)(unsafe.Pointer(c))
}

func toClientHelloInfo(chi *clientHelloInfo) *ClientHelloInfo {
	return (*ClientHelloInfo)(unsafe.Pointer(chi))
}

func structsEqual(a, b interface{}) bool {
	return compare(reflect.ValueOf(a), reflect.ValueOf(b))
}

func compare(a, b reflect.Value) bool {
	sa := a.Elem()
	sb := b.Elem()
	if sa.NumField() != sb.NumField() {
		return false
	}
	for i := 0; i < sa.NumField(); i++ {
		fa := sa.Type().Field(i)
		fb := sb.Type().Field(i)
		if !reflect.DeepEqual(fa.Index, fb.Index) || fa.Name != fb.Name || fa.Anonymous != fb.Anonymous || fa.Offset != fb.Offset || !reflect.DeepEqual(fa.Type, fb.Type) {
			if fa.Type.Kind() != fb.Type.Kind() {
				return false
			}
			if fa.Type.Kind() == reflect.Slice {
				if !compareStruct(fa.Type.Elem(), fb.Type.Elem()) {
					return false
				}
				continue
			}
			return false
		}
	}
	return true
}

func compareStruct(a, b reflect.Type) bool {
	if a.NumField() != b.NumField() {
		return false
	}
	for i := 0; i < a.NumField(); i++ {
		fa := a.Field(i)
		fb := b.Field(i)
		if !reflect.DeepEqual(fa.Index, fb.Index) || fa.Name != fb.Name || fa.Anonymous != fb.Anonymous || fa.Offset != fb.Offset || !reflect.DeepEqual(fa.Type, fb.Type) {
			return false
		}
	}
	return true
}
