//go:build go1.20
// +build go1.20

package qtls
