#!/usr/bin/env python3
"""Regenerates /verif/MANIFEST.json from the table below (kept in one place so the manifest is always valid)."""
import json, os, subprocess
V = "/verif"
CHECKS = {
 # id: (category, technique, level text, level note, design ref)
 "C07": ("exploration", "differential runtime oracle, exhaustive n=0..255, contract formulas extracted from source at run time",
         "Exhaustive over the whole one-byte domain: the real CalculateQuorum is executed for every n in 0..255 and compared with floor(2n/3)+1 and with the quorum expressions read from Messages.sol and governance.ral in the working tree; BFT inequalities asserted per n.",
         "Contract expressions are evaluated by the harness' own integer evaluator (truncating division), not by an EVM/Alephium VM; an expression the extractor cannot parse makes the run inconclusive.", "3/C07"),
}
def main():
    props = [json.loads(l) for l in open(f"{V}/properties.jsonl")]
    checks, na = [], []
    for p in props:
        i = p["id"]
        if i in CHECKS and os.path.isdir(f"{V}/harness/node/cmd/{i.lower()}") or i in CHECKS and os.path.isdir(f"{V}/harness/explorer/cmd/{i.lower()}"):
            cat, tech, text, note, ref = CHECKS[i]
            checks.append({
                "property_id": i,
                "quick_cmd": f"bin/check {i} quick",
                "thorough_cmd": f"bin/check {i} thorough",
                "evidence_file": f"/verif/evidence/{i}.json",
                "replay_cmd_template": f"cat {{path}}  # witness incl. seed/class; re-run: VERIF_SEED=<seed> bin/check {i} <tier>",
                "engine": "vmon",
                "level_claimed": {"category": cat, "text": text, "design_ref": f"DESIGN.md §{ref}"},
                "level_note": note,
                "technique": tech,
            })
        else:
            na.append({"property_id": i, "reason": "monitor not built yet in this session (work in progress; see DESIGN.md §3 for the planned runtime monitor)"})
    hooks_commits = []
    try:
        out = subprocess.run(["git", "-C", "/repo", "log", "--format=%H %s"], capture_output=True, text=True).stdout
        hooks_commits = [l.split()[0] for l in out.splitlines() if " verif-hook:" in l or l.split(" ",1)[1].startswith("verif-hook")]
    except Exception:
        pass
    m = {
        "version": 1,
        "setup_cmd": "bin/setup",
        "hooks": {
            "guard": "verif (Go build tag)",
            "enable": "go build -tags verif -overlay=/verif/overlay/overlay.json (done by bin/check for every monitor)",
            "baseline_off_cmd": "for m in clients/eth explorer-api-server explorer-backend node; do (cd /repo/$m && go test -mod=mod -json -vet=off -count=1 -timeout 25m ./...); done",
            "source_commits": hooks_commits,
            "add_only": True,
        },
        "engines": [
            {"name": "vmon", "path": "/verif/harness", "serves_properties": [c["property_id"] for c in checks],
             "kind_free_text": "Go monitor programs (one per property) linked against /repo's working tree via replace directives; oracles over hooked state, recorded event logs, simulated chain nodes; Go race detector; child-process crash injection"},
        ],
        "checks": checks,
        "not_applicable": na,
        "notes": "Runtime monitoring only. bin/check <ID> <tier> rebuilds the monitor from /repo's working tree with -tags verif and runs it; exit 0 held, 1 violation (VIOLATION line), 3 inconclusive, 2 build failure. Known findings: /verif/known_findings.json.",
    }
    json.dump(m, open(f"{V}/MANIFEST.json", "w"), indent=1)
    print("checks:", [c["property_id"] for c in checks], "n/a:", len(na))
main()
