#!/usr/bin/env python3
"""Regenerates /verif/MANIFEST.json from the table below (kept in one place so the manifest is always valid)."""
import json, os, subprocess
V = "/verif"
CHECKS = {
 # id: (category, technique, level text, level note, design ref)
 "C01": ("exploration", "step-wise invariant monitor over hooked handlers (direct mode) and the real Run loop under the race detector; independent wire decoder + quorum/signature predicate",
         "Generated hostile scenarios (set sizes 1..19, node key at every position or absent, 1-3 successive sets, forged/mis-addressed/non-member/other-digest observations, inbound VAAs of ten kinds, set updates anywhere) are delivered to the real handlers; after every step every quorum VAA on the outbound channel and every changed store entry is decoded independently and must carry >= quorum valid, ascending signatures of the set in force at observation time (aggregated, and naming it) or of the current set (inbound); stored VAAs may not be replaced by peer copies. A subset runs through the real Processor.Run with the real loop-back race under -race.",
         "Guardian sets have distinct keys; ecrecover/Keccak shared. libp2p receive loop not executed (DESIGN 1.1).", "3/C01"),
 "C02": ("exploration", "reference-model trace checker (exact expected outputs per step), order-permutation confluence, exhaustive small orders, run-loop replay under the race detector",
         "A 60-line reference model predicts, for every step, the exact own observation and the exact quorum-VAA bytes; the real handlers must emit exactly those (publication exactly at first quorum after local observation, never before, once per lifetime, body equal to the own observation, nothing at all for governance-emitter observations). Fixed multisets are replayed in random orders with duplications (published set must not depend on order), every order of small multisets is enumerated, and scenarios are replayed through the real Run loop where the own-signature loop-back goroutine races for real.",
         "Validity of an observation is judged against the set applicable at its delivery; confluence only without set changes and for a member node.", "3/C02"),
 "C03": ("exploration", "mutation-driven runtime oracle with independent acceptability predicate; before/after state snapshots; concurrent cap stress under the race detector",
         "For observations (real handleObservation), heartbeats and re-observation requests (real verifiers through hooks): a valid message by a member and every single mutation from the property (bit flips across payload/signature/address, outsider, member under another member's address, wrong/missing/other-type prefix, valid signatures over 31..35-byte pre-images, cross-type replay, empty/64/66-byte signatures, old member after rotation) against sets of 1, 3, 19 before and after a set change. Acceptability is recomputed independently; a rejected message must return an error and leave the aggregation snapshot / heartbeat table byte-identical; accepted heartbeats must be filed under the recovered signer; 8 goroutines x 40 peer ids stress the per-guardian cap under -race.",
         "The dispatch switch inside p2p.Run (libp2p receive loop) is not reachable offline; disableVerify=true (spy mode) not exercised.", "3/C03"),
 "C04": ("exploration", "differential runtime oracle: real serializer/processor vs spec layout and source-interpreted Solidity/Ralph parsers",
         "Generated VAAs (boundary table for every field + random; payloads 0..65535) are serialized by the real code; body/digest compared with an independent layout + x/crypto keccak, parsed back by interpreters built at run time from Messages.sol parseVM and governance.ral parseAndVerifyVAA; invariance (version/set index/signatures/nanos) and single-field injectivity asserted per VAA; two real processors (Run loop, different keys, different set indices) must sign the harness' digest.",
         "Contract parsers are interpreted from source text by the harness (not EVM/VM execution). Held on the generated inputs only.", "3/C04"),
 "C05": ("exploration", "reference-decoder oracle over generated/mutated encodings + Go native coverage-guided fuzzing with in-target oracle",
         "Round trip of generated VAAs (payload 1..70000, 0..255 signatures), structured mutations (truncation at every field boundary, signature-count byte, version, trailing bytes, bit flips, all short lengths) judged by an independent reference decoder (accept iff version 1 and length >= 6+66n+54; every field equal; re-encoding byte-identical), plus go test -fuzz with the re-encode/no-partial-result oracle in the target; panics recovered and reported.",
         "Fuzzing explores what coverage guidance reaches in the time budget (quick 20 s x 8 workers; thorough 10 min x 16).", "3/C05"),
 "C06": ("exploration", "reference-predicate oracle over generated guardian lists and every single-step corruption",
         "The real VerifySignatures is called on lists of length 0..255 (quick: 10 lengths, thorough: all) with 0-2 repeated addresses, valid ascending signature subsets and each corruption from the property (body flip, swap, shuffle, duplicate, re-index, outsider key, recovery byte, r/s zero, high-s twin, drop); boolean compared with an independent reference; both directions of the iff are counted; panics recovered.",
         "secp256k1 recovery and Keccak are shared with the code under test.", "3/C06"),
 "C08": ("exploration", "simulated-node trace monitor: real watcher under the real supervisor against a versioned ground-truth chain; safety oracle per forwarded message; fault injection at the REST boundary; child processes; race detector",
         "The real alephium.Watcher polls a simulated full node (ten REST endpoints over a ground-truth model of blocks, main-chain flags, heights, the core contract's append-only event log, per-transaction events of several contracts, token metadata). Scripts mutate the chain (blocks, reorgs with/without re-inclusion - also exactly at a main-chain query -, height advances and stalls, consistency levels {0,1,2,10,204,205,206,254}, foreign senders, look-alike events of another contract in the same tx, mismatching / unverifiable attestations, mainnet on/off), send re-observation requests at every stage and inject HTTP 500 / malformed JSON on any endpoint. Every forwarded message is matched with the ground-truth entry it was made from and must, in the chain version current at its arrival or the one before, come from the core contract with the token bridge as sender, in a main-chain block, at sufficient height, with matching attestation metadata and (mainnet transfer) past the time floor; an event is forwarded at most once plus once per re-observation request. Watcher crashes are observed as child-process exits.",
         "Simulated node, not a real Alephium node; block timestamps placed >= 10 min from the time floor.", "3/C08"),
 "C09": ("exploration", "simulated-node trace monitor with request-interleaving hooks: bounded-progress liveness oracle, spin / restart / crash detection from the request log; child processes; race detector",
         "Same simulator; events are appended between the count answer and the page answers (0/1/page/page+1 of them), pages are 1/2/3/100 events, and batches mix well-formed token-bridge messages (incl. target 65535, consistency 255, sequence near 2^64) with foreign-sender events, attestation-shaped events naming contracts whose metadata calls fail in seven ways and twelve kinds of malformed events. After the last mutation, within 6 further completed poll rounds every expected token-bridge message must have been forwarded exactly once; the request log must show no run of > 50 identical page requests (spin) and only one watcher start (no restart caused by event content); a watcher crash is a child-process exit attributed to its innermost repository frame.",
         "Liveness restated as bounded progress in poll rounds; quiescence detected through a read-only hook on the watcher's height-poller switch plus arrival stability.", "3/C09"),
 "C10": ("exploration", "simulated JSON-RPC node (go-ethereum rpc.Server over loop-back WebSocket) trace monitor: safety judged from the answers actually served before each arrival; exactly-once oracle after quiescence; child processes; race detector",
         "The real ethereum.Watcher runs in both confirmation modes (Ethereum/finalized/no extra confirmations and BSC/latest/consistency-level confirmations) against a fake node serving eth_getBlockByNumber/Hash, eth_getTransactionReceipt, eth_call (guardian-set getters) and eth_subscribe(logs) over a ground-truth chain. Scripts mine transactions with core logs, logs of another address with the same topic, other topics and failed receipts, make the head jump by {1,2,31,59,60,61,200,10000} past (or short of) the required depth, stall, replace blocks (transaction moved or dropped), send re-observation requests at every stage and inject RPC errors on every method (incl. transient receipt failures with heads arriving one by one). Each forwarded message must stem from a core-contract log with the message topic, and before it arrived the simulator must have served a head >= block + required confirmations and, as the last receipt answer, status 1 in that very block. In scripts without injected errors every final message must be forwarded exactly once by the head scan, never for a replaced block.",
         "Simulated node; exactly-once oracle only in scripts without RPC faults / watcher restarts (plus the dedicated transient-receipt scenario).", "3/C10"),
 "C11": ("exploration", "intent-based runtime oracle on the real event conversion (hook), exported converters and parseAttestToken; attestation payloads built by the concatenation interpreted from token_bridge.ral",
         "Events whose six fields are drawn from the property's boundary list, random in-range values, negatives, non-numeric strings, wrong type tags / Val kinds, wrong field counts, senders and nonces of wrong length are converted by the real code; if every generated value fits, the message must carry exactly those values, the block timestamp (ms exact), the tx id and the Alephium chain id, otherwise the conversion must return an error; a panic is a violation. Contract id <-> address and hex conversions are checked to be inverse on random ids, and attestation payloads built by interpreting attestToken's ++ concatenation must parse back to the same id/decimals/symbol/name.",
         "Direct calls (no watcher, no node) - the watcher-level behaviour is C08/C09.", "3/C11"),
 "C12": ("exploration", "reference-model oracle (map id->bytes) over real badger store, public RPC server and admin service; differential isolation against a single-stream store",
         "Random multisets of VAAs over prefix-related chain ids (2/25/255, 1/10/10001, 4/42), overlapping sequences and overwrites are stored in a real badger store; every stored id, its near misses and all neighbouring streams are queried through db, PublicrpcServer (GetSignedVAA, Get*VAABatch) and admin FindMissingMessages; answers must equal the model and, for gap scans, the answer of a second store holding only that stream.",
         "Sequence windows 0..41; non-empty payloads. An empty stream may report sequence 0 as missing (streams start at 0).", "3/C12"),
 "C13": ("exploration", "panic monitor: recover() around real handlers over adversarial histories; child processes running the real Run loop under the real supervisor with panic propagation",
         "Adversarial histories over all seven processor inputs (nil/empty/1 MiB payloads, extreme timestamps, malformed observations and inbound bytes, injections before any guardian set, empty/foreign sets, age + cleanup ticks anywhere, complete-store-observe-again patterns) are replayed against the real handlers; a recovered panic is a violation whose class is the innermost repository function on the stack. A share is replayed in child processes through the real Run loop under supervisor.WithPropagatePanic: a panic there is observed as the process exit the property is about.",
         "Cleanup ticks are driven only in direct mode (logical ageing through the VerifAge hook).", "3/C13"),
 "C14": ("exploration", "trace monitor over hooked cleanup under a logical clock (VerifAge), envelope oracle on retransmission times and entry lifetimes",
         "Entries of four kinds are created through the real handlers at different logical times; handleCleanup is driven by tick scripts (regular 30 s, irregular 1 s..3 h, stalls up to 1300 h, full request queue, one full 14400-retry run). After every tick the outbound gossip channel, the request channel and the aggregation map are observed: retransmissions byte-identical to the original observation, >= 5 min apart, never overdue by more than 5 min + 2 tick gaps, accompanied by a re-observation request when the queue has room; observed entries never discarded before the budget is spent unless a quorum VAA is stored; late/unknown/submitted entries gone within 30 s / 5 min / 1 h + 2 ticks.",
         "Logical time through the VerifAge hook; scenarios whose real elapsed time could blur a threshold are discarded.", "3/C14"),
 "C15": ("exploration", "differential runtime oracle: real InjectGovernanceVAA vs Ralph parsers interpreted from source; integer comparison of every requested value; panic monitor; two-instance determinism",
         "Requests of all nine governance kinds (plus a message without payload) with in-range boundary and beyond-range values are submitted to the real admin service (hook-constructed); each is either rejected, or the injected VAA must come from the configured governance emitter, carry the request's envelope fields untruncated, return the VAA's own digest, give the same digest on a second service instance and on repetition, pass the contracts' module/action check and be parsed by the interpreted Ralph function for that action into exactly the requested values (compared as integers) with the exact total size the contract asserts; a panic is a violation.",
         "Ralph parsers are interpreted from source text; contract policy assertions unrelated to layout are not judged.", "3/C15"),
 "C17": ("exploration", "trace monitor of the real dispatcher under a harness clock with sentinel-based quiescence; queue-length/FIFO model; blocking watchdog with goroutine dump",
         "The real handleReobservationRequests runs against a mock clock whose purge ticks the harness delivers on an unbuffered channel; per-chain queues of capacity 0-3 at every fill level, unknown chains and chain ids above 65535; every step is followed by a sentinel request proving the dispatcher processed it. A request may appear only on the queue of the chain it names; a repeat within 11 min of the last forward is suppressed and one after 18 min is forwarded when there is room; dropped requests are not remembered; no send to the dispatcher may take longer than the watchdog (goroutine dump attached); PostObservationRequest on a full queue returns ErrChanFull without blocking.",
         "Window judged as an envelope (11 min / 18 min).", "3/C17"),
 "C16": ("fault_enumeration", "SIGKILL injection into writer child processes at PRNG-chosen points; fresh verifier process checks every acknowledged id",
         "Writer children stream unique (cycle,seq,version) VAAs of 100 B..256 KiB (with overwrites) into one badger directory through the real db.StoreSignedVAA and acknowledge each on a pipe; the parent SIGKILLs them after the k-th ACK + delay, right after a BEGIN, during open, or kills the verifier during its own reopen; after every kill a fresh process reopens the directory and looks up every id of all cycles: acknowledged => exact bytes of the acknowledged (or a later begun) version, unacknowledged => not-found or exact bytes, never anything else; reopen must succeed.",
         "Process kill only (page cache survives), as the property states; kill points are sampled, not enumerated at instruction granularity.", "3/C16"),
 "C18": ("exploration", "instrumented-service trace monitor over generated supervision trees (public API), bounded-progress oracle, race detector",
         "Random trees (depth <= 3, <= 22 services, multi-member groups) whose services follow per-incarnation scripts (fail by error / nil / panic before or after signalling healthy, then wait-and-linger or signal done) run 16 at a time under -race. Per-name atomic running counters assert that no service runs twice at once (checked at entry); the event log is checked for: group siblings cancelled after a failure, restart not before the minimum back-off, done services re-entered only with a cause in their restart cone, bounded progress (all scripted failures are finite, so within 40 s every waiting service runs exactly once and every done service is done - otherwise a violation with a dump of the supervisor goroutines), and after cancelling the supervisor context every instance exits and nothing starts again. A panic inside the supervisor's own goroutine kills the monitor process; the driver reports that as a violation with the crashing stack.",
         "Liveness restated as bounded progress (40 s bound vs < 5 s of reachable back-off).", "3/C18"),
 "C20": ("exploration", "trace monitor over fake gRPC streams with gated Send; fault injection (stall / disconnect) at generated points; blocked-Publish watchdog with structural witness; race detector",
         "The real spyServer (hook) serves 1-8 fake subscriber streams with 0-3 filters; the sequence each reading subscriber received must equal the published VAAs matching its filters, in publish order. At a generated point one subscriber stalls in Send forever, disconnects cleanly, or disconnects with a backlog; afterwards every Publish must return, the other subscribers must receive everything, and subscriptions must still register and be removed. A blocked Publish is reported only with a structural witness (goroutine parked in chan send inside spy.go while the subscription mutex is unavailable at two instants). Known finding F14 (stalled / departed subscriber blocks Publish under the mutex) is matched by class and reported as KNOWN-FINDING.",
         "Fake in-process streams, no TCP transport; -race.", "3/C20"),
 "C07": ("exploration", "differential runtime oracle, exhaustive n=0..255, contract formulas extracted from source at run time",
         "Exhaustive over the whole one-byte domain: the real CalculateQuorum is executed for every n in 0..255 and compared with floor(2n/3)+1 and with the quorum expressions read from Messages.sol and governance.ral in the working tree; BFT inequalities asserted per n.",
         "Contract expressions are evaluated by the harness' own integer evaluator (truncating division), not by an EVM/Alephium VM; an expression the extractor cannot parse makes the run inconclusive.", "3/C07"),
}
def main():
    props = [json.loads(l) for l in open(f"{V}/properties.jsonl")]
    checks, na = [], []
    for p in props:
        i = p["id"]
        if i in CHECKS and os.path.isdir(f"{V}/harness/node/cmd/{i.lower()}") or i in CHECKS and os.path.isdir(f"{V}/harness/explorer/cmd/{i.lower()}"):
            cat, tech, text, note, ref = CHECKS[i]
            checks.append({
                "property_id": i,
                "quick_cmd": f"bin/check {i} quick",
                "thorough_cmd": f"bin/check {i} thorough",
                "evidence_file": f"/verif/evidence/{i}.json",
                "replay_cmd_template": f"cat {{path}}  # witness incl. seed/class; re-run: VERIF_SEED=<seed> bin/check {i} <tier>",
                "engine": "vmon",
                "level_claimed": {"category": cat, "text": text, "design_ref": f"DESIGN.md §{ref}"},
                "level_note": note,
                "technique": tech,
            })
        else:
            na.append({"property_id": i, "reason": "monitor not built yet in this session (work in progress; see DESIGN.md §3 for the planned runtime monitor)"})
    hooks_commits = []
    try:
        out = subprocess.run(["git", "-C", "/repo", "log", "--format=%H %s"], capture_output=True, text=True).stdout
        hooks_commits = [l.split()[0] for l in out.splitlines() if " verif-hook:" in l or l.split(" ",1)[1].startswith("verif-hook")]
    except Exception:
        pass
    m = {
        "version": 1,
        "setup_cmd": "bin/setup",
        "hooks": {
            "guard": "verif (Go build tag)",
            "enable": "go build -tags verif -overlay=/verif/overlay/overlay.json (done by bin/check for every monitor)",
            "baseline_off_cmd": "for m in clients/eth explorer-api-server explorer-backend node; do (cd /repo/$m && go test -mod=mod -json -vet=off -count=1 -timeout 25m ./...); done",
            "source_commits": hooks_commits,
            "add_only": True,
        },
        "engines": [
            {"name": "vmon", "path": "/verif/harness", "serves_properties": [c["property_id"] for c in checks],
             "kind_free_text": "Go monitor programs (one per property) linked against /repo's working tree via replace directives; oracles over hooked state, recorded event logs, simulated chain nodes; Go race detector; child-process crash injection"},
        ],
        "checks": checks,
        "not_applicable": na,
        "notes": "Runtime monitoring only. bin/check <ID> <tier> rebuilds the monitor from /repo's working tree with -tags verif and runs it; exit 0 held, 1 violation (VIOLATION line), 3 inconclusive, 2 build failure. Known findings: /verif/known_findings.json.",
    }
    json.dump(m, open(f"{V}/MANIFEST.json", "w"), indent=1)
    print("checks:", [c["property_id"] for c in checks], "n/a:", len(na))
main()
