#!/usr/bin/env python3
"""Self-validation: apply each textual mutant to /repo, run the property's quick check, restore.
A mutant is 'caught' when the check exits 1 with a VIOLATION line. Results -> /verif/mutation_results.json
usage: mutsweep.py [ID ...]   (default: all)"""
import subprocess, sys, json, os, time
R="/repo"
M=[
 # (property, name, file, old, new)
 ("C01","quorum-1","node/pkg/processor/observation.go","if len(sigs) >= quorum && !p.state","if len(sigs) >= quorum-1 && !p.state"),
 ("C01","inbound-skip-verify","node/pkg/processor/observation.go","	if !v.VerifySignatures(p.gs.Keys) {","	if len(m.Vaa) == 0 && !v.VerifySignatures(p.gs.Keys) {"),
 ("C01","inbound-skip-stored-check","node/pkg/processor/observation.go","	_, err = p.db.GetSignedVAABytes(*db.VaaIDFromVAA(v))\n	if err == nil {","	err = db.ErrVAANotFound\n	if err == nil {"),
 ("C01","aggregate-against-current-set","node/pkg/processor/observation.go","	if p.state.vaaSignatures[hash] != nil && p.state.vaaSignatures[hash].gs != nil {","	if p.state.vaaSignatures[hash] != nil && p.state.vaaSignatures[hash].gs != nil && len(m.Hash) == 0 {"),
 ("C01","inbound-quorum-of-named-count","node/pkg/processor/observation.go","	if len(v.Signatures) < quorum {\n		p.logger.Warn(\"received SignedVAAWithQuorum message without quorum\"","	if len(v.Signatures) < quorum-1 {\n		p.logger.Warn(\"received SignedVAAWithQuorum message without quorum\""),
 ("C02","republish","node/pkg/processor/observation.go","		if len(sigs) >= quorum && !p.state.vaaSignatures[hash].submitted {","		if len(sigs) >= quorum {"),
 ("C02","gov-guard-off","node/pkg/processor/message.go","	if v.EmitterAddress == p.governanceEmitterAddress && v.EmitterChain == p.governanceChainId {","	if v.EmitterAddress == p.governanceEmitterAddress && v.EmitterChain == p.governanceChainId && v.Nonce == 77 {"),
 ("C02","wrong-field","node/pkg/processor/message.go","		ConsistencyLevel: k.ConsistencyLevel,\n	}","		ConsistencyLevel: k.ConsistencyLevel & 0x7f,\n	}"),
 ("C03","hb-floor","node/pkg/p2p/p2p.go","	if len(heartbeatMessagePrefix)+len(s.Heartbeat) < 34 {","	if len(heartbeatMessagePrefix)+len(s.Heartbeat) < 32 {"),
 ("C03","req-signer","node/pkg/p2p/p2p.go","	signerAddr := common.BytesToAddress(ethcrypto.Keccak256(pubKey[1:])[12:])\n	if pk != signerAddr {","	signerAddr := common.BytesToAddress(ethcrypto.Keccak256(pubKey[1:])[12:])\n	if pk != signerAddr && len(s.Signature) == 1 {"),
 ("C03","cap","node/pkg/common/guardianset.go","		if len(v) >= MaxNodesPerGuardian {","		if len(v) > MaxNodesPerGuardian {"),
 ("C03","obs-addr","node/pkg/processor/observation.go","	if their_addr != signer_pk {","	if their_addr != signer_pk && len(m.Addr) == 0 {"),
 ("C03","obs-membership","node/pkg/processor/observation.go","	_, ok := gs.KeyIndex(their_addr)\n	if !ok {","	_, ok := gs.KeyIndex(their_addr)\n	if !ok && len(m.Hash) == 0 {"),
 ("C04","hash-once","node/pkg/vaa/structs.go","	hash := crypto.Keccak256Hash(crypto.Keccak256Hash(v.signingBody()).Bytes())","	hash := crypto.Keccak256Hash(v.signingBody())"),
 ("C04","swap-chains","node/pkg/vaa/structs.go","	MustWrite(buf, binary.BigEndian, v.EmitterChain)\n	MustWrite(buf, binary.BigEndian, v.TargetChain)\n	buf.Write(v.EmitterAddress[:])\n	MustWrite(buf, binary.BigEndian, v.Sequence)","	MustWrite(buf, binary.BigEndian, v.TargetChain)\n	MustWrite(buf, binary.BigEndian, v.EmitterChain)\n	buf.Write(v.EmitterAddress[:])\n	MustWrite(buf, binary.BigEndian, v.Sequence)"),
 ("C05","floor","node/pkg/vaa/structs.go","	if len(data) < minVAALength {","	if len(data) < 0 {"),
 ("C05","payload-cap","node/pkg/vaa/structs.go","	payload := make([]byte, reader.Len())","	payload := make([]byte, 4096)"),
 ("C06","bound","node/pkg/vaa/structs.go","		if int(sig.Index) >= len(addresses) {\n			return false\n		}","		if int(sig.Index) > len(addresses) {\n			return false\n		}"),
 ("C06","order","node/pkg/vaa/structs.go","		if int(sig.Index) <= last_index {","		if int(sig.Index) < last_index-1 {"),
 ("C06","position","node/pkg/vaa/structs.go","		if addr != addresses[sig.Index] {","		if !containsAddr(addresses, addr) {"),
 ("C07","no-plus-one","node/pkg/processor/quorum.go","	return ((numGuardians*10/3)*2)/10 + 1","	if numGuardians > 40 {\n		return numGuardians * 2 / 3\n	}\n	return ((numGuardians*10/3)*2)/10 + 1"),
 ("C08","no-sender-check","node/pkg/alephium/watcher.go","			if !e.event.msg.senderId.equalWith(w.tokenBridgeContractId) {","			if false && !e.event.msg.senderId.equalWith(w.tokenBridgeContractId) {"),
 ("C08","height-off-by-one","node/pkg/alephium/watcher.go","	if eventBlockHeader.Height+int32(consistencyLevel) > currentHeight {","	if eventBlockHeader.Height+int32(consistencyLevel) > currentHeight+1 {"),
 ("C08","min-instead-of-max","node/pkg/alephium/utils.go","func maxUint8(a, b uint8) uint8 {\n	if a > b {","func maxUint8(a, b uint8) uint8 {\n	if a < b {"),
 ("C08","reobs-no-mainchain","node/pkg/alephium/reobserve.go","			if !*isCanonical {","			if false && !*isCanonical {"),
 ("C08","no-attest-validation","node/pkg/alephium/watcher.go","			if err = w.validateAttestToken(ctx, unconfirmed.msg); err != nil {","			if err = w.validateAttestToken(ctx, unconfirmed.msg); err != nil && false {"),
 ("C09","count-as-next","node/pkg/alephium/watcher.go","				fromIndex = events.NextStart\n","				fromIndex = *count\n"),
 ("C09","drop-page","node/pkg/alephium/watcher.go","				unconfirmedEvents = append(unconfirmedEvents, unconfirmed...)","				unconfirmedEvents = unconfirmed"),
 ("C10","no-hash-check","node/pkg/ethereum/watcher.go","						if tx.BlockHash != key.BlockHash {","						if tx.BlockHash != key.BlockHash && false {"),
 ("C10","no-address-filter","node/pkg/ethereum/by_transaction.go","		if l.Address != contract {","		if l.Address != contract && false {"),
 ("C10","no-status","node/pkg/ethereum/by_transaction.go","	if receipt.Status != 1 {","	if receipt.Status != 1 && false {"),
 ("C10","reobs-depth","node/pkg/ethereum/watcher.go","					if blockNumber+expectedConfirmations <= blockNumberU {","					if blockNumber <= blockNumberU {"),
 ("C11","swap-fields","node/pkg/alephium/utils.go","	targetChainId, err := toUint16(fields[1])","	targetChainId, err := toUint16(fields[5])"),
 ("C11","millis","node/pkg/alephium/utils.go","	milliSecond := header.Timestamp % 1000","	milliSecond := header.Timestamp % 100"),
 ("C12","key-no-target","node/pkg/vaa/structs.go","	return []byte(fmt.Sprintf(\"signed/%d/%s/%d/%d\", i.EmitterChain, i.EmitterAddress, i.TargetChain, i.Sequence))","	return []byte(fmt.Sprintf(\"signed/%d/%s/%d%d\", i.EmitterChain, i.EmitterAddress, i.TargetChain, i.Sequence))"),
 ("C13","nil-deref","node/pkg/processor/cleanup.go","			if gs == nil {","			if gs == nil && s.retryCount > 3 {"),
 ("C14","budget-10","node/pkg/processor/cleanup.go","s.ourMsg != nil && s.retryCount >= 14400","s.ourMsg != nil && s.retryCount >= 10"),
 ("C14","no-lastretry","node/pkg/processor/cleanup.go","				s.lastRetry = time.Now()","				_ = time.Now()"),
 ("C14","skip-db","node/pkg/processor/cleanup.go","if !s.submitted && s.ourVAA != nil && delta > settlementTime {","if !s.submitted && s.ourVAA != nil && delta > settlementTime && s.retryCount > 99999 {"),
 ("C14","no-request","node/pkg/processor/cleanup.go","				if err := common.PostObservationRequest(p.obsvReqSendC, req); err != nil {","				if err := error(nil); s.retryCount%2 == 0 && common.PostObservationRequest(p.obsvReqSendC, req) != nil {"),
 ("C15","action-id","node/pkg/vaa/payloads.go","	MustWrite(buf, binary.BigEndian, uint8(0xf1))","	MustWrite(buf, binary.BigEndian, uint8(0xf2))"),
 ("C15","seq-width","node/pkg/vaa/payloads.go","	MustWrite(buf, binary.BigEndian, uint16(len(b.Sequences)))","	MustWrite(buf, binary.BigEndian, uint8(len(b.Sequences)))"),
 ("C15","sol-transferfees-offset","ethereum/contracts/GovernanceStructs.sol","tf.amount = encodedTransferFees.toUint256(index);\n        index += 32;","tf.amount = encodedTransferFees.toUint256(index);\n        index += 31;"),
 ("C15","sol-registerchain-width","ethereum/contracts/bridge/BridgeGovernance.sol","chain.emitterChainID = encoded.toUint16(index);\n        index += 2;","chain.emitterChainID = encoded.toUint8(index);\n        index += 2;"),
 ("C04","ral-body-offset","alephium/contracts/governance.ral","let body = byteVecSlice!(data, 6 + signatureSize * 66, size!(data))","let body = byteVecSlice!(data, 6 + signatureSize * 65, size!(data))"),
 ("C16","ack-before-commit","node/pkg/db/db.go","	err := d.db.Update(func(txn *badger.Txn) error {\n		if err := txn.Set(VaaIDFromVAA(v).Bytes(), b); err != nil {\n			return err\n		}\n		return nil\n	})\n","	var err error\n	go func() {\n		_ = d.db.Update(func(txn *badger.Txn) error {\n			return txn.Set(VaaIDFromVAA(v).Bytes(), b)\n		})\n	}()\n"),
 ("C17","remember-on-drop","node/cmd/guardiand/reobserve.go","				default:\n					logger.Warn(\"failed to send reobservation request to watcher\",","				default:\n					cache[r] = clock.Now()\n					logger.Warn(\"failed to send reobservation request to watcher\","),
 ("C17","window-31","node/cmd/guardiand/reobserve.go","				if now.Sub(t) > 11*time.Minute {","				if now.Sub(t) > 31*time.Minute {"),
 ("C17","blocking-send","node/cmd/guardiand/reobserve.go","				select {\n				case channel <- req:\n					cache[r] = clock.Now()\n\n				default:","				select {\n				case channel <- req:\n					cache[r] = clock.Now()\n\n				case <-ctx.Done():"),
 ("C18","no-sibling-cancel","node/pkg/supervisor/supervisor_processor.go","			sibling.ctxC()\n","			_ = sibling\n"),
 ("C18","restart-without-ready","node/pkg/supervisor/supervisor_processor.go","		if want[cur.dn()] && ready[cur.dn()] {","		if want[cur.dn()] {"),
 ("C19","no-lock","explorer-backend/guardiansets/gst_data.go","func (gs *GuardianSets) GetCurrentGuardianSet() *common.GuardianSet {\n	gs.lock.Lock()\n	defer gs.lock.Unlock()\n","func (gs *GuardianSets) GetCurrentGuardianSet() *common.GuardianSet {\n"),
 ("C19","current-set","explorer-backend/processor/vaa_gossip_consumer.go","	guardianSet, err := p.guardianSets.GetGuardianSet(ctx, int(v.GuardianSetIndex))","	guardianSet, err := p.guardianSets.GetGuardianSet(ctx, int(p.guardianSets.GetCurrentGuardianSet().Index))"),
 ("C19","dedup-before","explorer-backend/deduplicator/deduplicator.go","	if err := fn(); err != nil {\n		return err\n	}\n\n	_ = d.cache.Set(ctx, key, true, store.WithCost(16), store.WithExpiration(d.expiration))","	_ = d.cache.Set(ctx, key, true, store.WithCost(16), store.WithExpiration(d.expiration))\n	if err := fn(); err != nil {\n		return err\n	}\n"),
 ("C20","chain-only","node/cmd/spy/spy.go","if fi.chainId == v.EmitterChain && fi.emitterAddr == v.EmitterAddress {","if fi.chainId == v.EmitterChain {"),
]
EXTRA={"C06":("node/pkg/vaa/structs.go","\n// containsAddr reports whether list contains a.\nfunc containsAddr(list []common.Address, a common.Address) bool {\n\tfor _, x := range list {\n\t\tif x == a {\n\t\t\treturn true\n\t\t}\n\t}\n\treturn false\n}\n")}
def sh(c,**k): return subprocess.run(c,shell=True,capture_output=True,text=True,**k)
def main():
    want=set(sys.argv[1:])
    if sh("git -C /repo status --porcelain").stdout.strip(): print("repo dirty"); sys.exit(9)
    out=[]
    for prop,name,f,old,new in M:
        if want and prop not in want: continue
        p=os.path.join(R,f); s=open(p).read()
        if s.count(old)!=1:
            out.append({"property":prop,"mutant":name,"result":"pattern-not-unique(%d)"%s.count(old)}); print(prop,name,"PATTERN",s.count(old)); continue
        s2=s.replace(old,new)
        if name=="position": s2+=EXTRA["C06"][1]
        open(p,"w").write(s2)
        t=time.time()
        r=sh("VERIF_OUT=/verif/.build/mut /verif/bin/check %s quick"%prop)
        res="caught" if (r.returncode==1 and "VIOLATION" in r.stdout) else ("build-failed" if r.returncode==2 else "MISSED(rc=%d)"%r.returncode)
        classes=[l.strip()[6:].split(" count=")[0] for l in r.stdout.splitlines() if l.strip().startswith("class=")]
        sh("git -C /repo checkout -- .")
        out.append({"property":prop,"mutant":name,"file":f,"result":res,"violation_classes":classes[:6],"seconds":round(time.time()-t,1)})
        print(prop,name,res,classes[:2],flush=True)
    prev=[]
    if want and os.path.exists("/verif/mutation_results.json"):
        prev=[x for x in json.load(open("/verif/mutation_results.json")) if x["property"] not in want]
    json.dump(sorted(prev+out,key=lambda x:(x["property"],x["mutant"])),open("/verif/mutation_results.json","w"),indent=1)
main()
